/-
  C06 / C13 — waiting. Property theorems only. The whole subscription manager
  is tied to the code by the correspondence run (channel ids, closed sets and
  canceled contexts after every operation); the theorems below pin the counter
  logic of When/WhenNot bindings and what Dispose releases.
-/
import AmVerif.Model.Machine
import AmVerif.Lemmas.ListSet
namespace Am

/-- how many recorded states currently satisfy the binding (active for `When`,
    inactive for `WhenNot`). -/
def WhenB.count (b : WhenB) : Nat :=
  (b.states.filter (fun p => if b.neg then !p.2 else p.2)).length

/-- the binding's bookkeeping is right: `Matched` counts the satisfying states. -/
def WhenB.OK (b : WhenB) : Prop := b.matched = (b.count : Int)

theorem mset_filter_length_update (m : List (Nat × Bool)) (st : Nat) (v : Bool) (f : Bool → Bool)
    (hnd : (m.map (·.1)).Nodup) (hmem : ∃ old, (st, old) ∈ m) :
    ((mset m st v).filter (fun p => f p.2)).length + (if f (((m.find? (·.1 == st)).map (·.2)).getD false) then 1 else 0)
      = (m.filter (fun p => f p.2)).length + (if f v then 1 else 0) := by
  induction m with
  | nil => obtain ⟨_, h⟩ := hmem; simp at h
  | cons a t ih =>
    simp only [List.map_cons, List.nodup_cons] at hnd
    by_cases ha : a.1 = st
    · -- the head is the entry
      have hany : ((a :: t).any (·.1 == st)) = true := by simp [ha]
      have htl : ∀ p ∈ t, (p.1 == st) = false := by
        intro p hp
        have : p.1 ≠ a.1 := fun e => hnd.1 (e ▸ List.mem_map_of_mem (f := (·.1)) hp)
        simpa [ha] using this
      have hmap : t.map (fun p => if p.1 == st then (st, v) else p) = t := by
        have : t.map (fun p => if p.1 == st then (st, v) else p) = t.map id := by
          apply List.map_congr_left
          intro p hp; simp [htl p hp]
        rw [this, List.map_id]
      simp only [mset, hany, if_true, List.map_cons, ha, beq_self_eq_true, hmap, List.find?_cons]
      simp only [List.filter_cons, Option.map_some, Option.getD_some]
      by_cases h1 : f v = true <;> by_cases h2 : f a.2 = true <;> simp [h1, h2]
    · have hne : (a.1 == st) = false := by simpa using ha
      have hmem' : ∃ old, (st, old) ∈ t := by
        obtain ⟨old, h⟩ := hmem
        rcases List.mem_cons.1 h with e | e
        · exact absurd (by rw [← e]) ha
        · exact ⟨old, e⟩
      have hany : (t.any (·.1 == st)) = true := by
        obtain ⟨old, h⟩ := hmem'
        simp only [List.any_eq_true]; exact ⟨_, h, by simp⟩
      have ih' := ih hnd.2 hmem'
      simp only [mset, hany, if_true] at ih'
      simp only [mset, List.any_cons, hne, Bool.false_or, hany, if_true, List.map_cons,
        Bool.false_eq_true, if_false, List.find?_cons]
      by_cases hfa : f a.2 = true
      · simp only [List.filter_cons, hfa, if_true, List.length_cons]; omega
      · simp only [List.filter_cons, hfa, if_false]; exact ih'

/-- C06 (binding bookkeeping): applying one changed state to a When/WhenNot
    binding keeps `Matched` equal to the number of satisfying states — also when
    the state was already recorded with that activity (the subscription landed
    between `setActiveStates` and `processSubscriptions`, or a Multi state was
    re-activated). -/
theorem C06_binding_invariant (b : WhenB) (v : Bool) (st : Nat)
    (hnd : (b.states.map (·.1)).Nodup) (hmem : ∃ old, (st, old) ∈ b.states) (hok : b.OK) :
    (b.touch v st).OK := by
  obtain ⟨id, neg, states, total, matched, ctx⟩ := b
  simp only [WhenB.OK, WhenB.touch, WhenB.count] at *
  cases neg
  · have key := mset_filter_length_update states st v (fun x => x) hnd hmem
    simp only [Bool.false_eq_true, if_false] at hok key ⊢
    generalize ((states.find? (·.1 == st)).map (·.2)).getD false = cur at key ⊢
    cases v <;> cases cur <;> simp at key ⊢ <;> omega
  · have key := mset_filter_length_update states st v (fun x => !x) hnd hmem
    simp only [if_true] at hok key ⊢
    generalize ((states.find? (·.1 == st)).map (·.2)).getD false = cur at key ⊢
    cases v <;> cases cur <;> simp at key ⊢ <;> omega

/-- C06 (completion test): with right bookkeeping and `Total` = number of
    recorded states, `Matched ≥ Total` holds exactly when every recorded state
    satisfies the binding — the channel is released neither early nor late. -/
theorem C06_binding_complete_iff (b : WhenB) (hok : b.OK) (ht : b.total = b.states.length) :
    (¬ b.matched < (b.total : Int)) ↔ ∀ p ∈ b.states, (if b.neg then !p.2 else p.2) = true := by
  unfold WhenB.OK WhenB.count at hok
  rw [hok, ht]
  have hle := List.length_filter_le (fun p : Nat × Bool => if b.neg then !p.2 else p.2) b.states
  constructor
  · intro h
    have heq : (b.states.filter (fun p => if b.neg then !p.2 else p.2)).length = b.states.length := by omega
    have := List.filter_eq_self.1 ((List.filter_sublist).eq_of_length heq)
    exact this
  · intro h
    have := List.filter_eq_self.2 h
    rw [this]; omega

/-- **C06 / C20 (a WhenArgs channel belongs to its caller)**: the channel a caller
    is handed is that of a binding for exactly the caller's state, arguments and
    context — never the channel of a binding made for another context or for a
    larger set of arguments (the reuse rule before fix 71ec5b8, which let a
    caller be woken by the end of somebody else's context, or never). -/
theorem C06_args_channel_is_the_callers (s : Subs) (state : Nat) (needsX : Bool) (ctx : Option Nat)
    (s' : Subs) (id : Nat) (h : Subs.subArgs s state needsX ctx = (s', some id)) :
    ∃ b ∈ s'.args, b.id = id ∧ b.state = state ∧ b.needsX = needsX ∧ b.ctx = ctx := by
  unfold Subs.subArgs at h
  split at h
  · simp at h
  · split at h
    · rename_i b hb
      simp only [Prod.mk.injEq, Option.some.injEq] at h
      obtain ⟨rfl, rfl⟩ := h
      have hm := List.mem_of_find?_eq_some hb
      have hp := List.find?_some hb
      simp only [Bool.and_eq_true, beq_iff_eq] at hp
      exact ⟨b, hm, rfl, hp.1.1, hp.1.2, hp.2⟩
    · simp only [Prod.mk.injEq, Option.some.injEq] at h
      obtain ⟨rfl, rfl⟩ := h
      exact ⟨{ id := s.next, state := state, needsX := needsX, ctx := ctx }, by simp, rfl, rfl, rfl, rfl⟩

/-- C13 (Dispose releases every waiter): after `dispose` every channel still
    registered in an index and every state context is released. -/
theorem C13_dispose_releases_all (m : Mach) :
    (∀ e ∈ m.subs.whenIdx, ∀ id ∈ e.2, id ∈ (disposeMach m).subs.closed) ∧
    (∀ e ∈ m.subs.timeIdx, ∀ id ∈ e.2, id ∈ (disposeMach m).subs.closed) ∧
    (∀ b ∈ m.subs.args, b.id ∈ (disposeMach m).subs.closed) ∧
    (∀ b ∈ m.subs.queries, b.id ∈ (disposeMach m).subs.closed) ∧
    (∀ id ∈ m.subs.queueEnds, id ∈ (disposeMach m).subs.closed) ∧
    (∀ b ∈ m.subs.queue, b.1 ∈ (disposeMach m).subs.closed) ∧
    (∀ e ∈ m.subs.stateCtx, e.2 ∈ (disposeMach m).subs.canceled) := by
  simp only [disposeMach, Subs.disposeAll, List.mem_append, List.mem_flatten, List.mem_map]
  refine ⟨?_, ?_, ?_, ?_, ?_, ?_, ?_⟩
  · intro e he id hid; exact Or.inl (Or.inl (Or.inl (Or.inl (Or.inl (Or.inr ⟨e.2, ⟨e, he, rfl⟩, hid⟩)))))
  · intro e he id hid; exact Or.inl (Or.inl (Or.inl (Or.inl (Or.inr ⟨e.2, ⟨e, he, rfl⟩, hid⟩))))
  · intro b hb; exact Or.inl (Or.inl (Or.inl (Or.inr ⟨b, hb, rfl⟩)))
  · intro b hb; exact Or.inl (Or.inl (Or.inr ⟨b, hb, rfl⟩))
  · intro id hid; exact Or.inl (Or.inr hid)
  · intro b hb; exact Or.inr ⟨b, hb, rfl⟩
  · intro e he; exact Or.inr ⟨e, he, rfl⟩

/-- C13 (neutral afterwards): on a disposed machine every mutation, check and
    AddErr is `Canceled` and changes nothing; every subscription answers with the
    shared closed channel. -/
theorem C13_neutral_after_dispose (orc : Oracle) (fuel : Nat) (m : Mach) (hd : m.disposed = true) :
    (∀ r, mutate orc fuel m r = (m, .canceled)) ∧
    (∀ k st, check orc fuel m k st = (m, .canceled)) ∧
    (addErr orc fuel m = (m, .canceled)) ∧
    (∀ r, doSub m r = (m, none)) := by
  refine ⟨fun r => by simp [mutate, hd], fun k st => by simp [check, hd], by simp [addErr, hd], ?_⟩
  intro r
  simp only [doSub, hd, if_true]
  cases r <;> rfl

end Am
