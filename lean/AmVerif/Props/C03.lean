/-
  C03 — transitions are all-or-nothing. Property theorems only.
-/
import AmVerif.Props.Common
namespace Am

/-- C03 (canceled in negotiation ⇒ nothing moved): if the negotiation phase of a
    transition ends with `Canceled` — relations rejected a called state, any
    Enter/Exit/self/state-state/AnyEnter handler returned false, or one of them
    panicked or timed out — the machine's active states and every tick are
    exactly what they were, for every schema, mutation and handler oracle. -/
theorem C03_negotiation_cancel_noop (orc : Oracle) (m0 : Mach) (t0 : Tx)
    (h : (negotiate orc (m0.emit (.tStart t0.accepted)) t0 t0.accepted).2.2 = false) :
    (emitEvents orc m0 t0).1.active = m0.active ∧ (emitEvents orc m0 t0).1.clock = m0.clock := by
  simp only [emitEvents]
  have k := negotiate_keeps orc (m0.emit (.tStart t0.accepted)) t0 t0.accepted
  have q0 : Quiet m0 (negotiate orc (m0.emit (.tStart t0.accepted)) t0 t0.accepted).1 :=
    (⟨rfl, rfl, rfl, rfl⟩ : Quiet m0 (m0.emit (.tStart t0.accepted))).trans k.chg
  generalize negotiate orc (m0.emit (.tStart t0.accepted)) t0 t0.accepted = p at q0 h ⊢
  split
  · exact ⟨q0.active, q0.clock⟩
  · split
    · have q := q0.trans (quiet_finish p.1
        (if (!p.2.2) = true then { p.2.1 with accepted := false } else p.2.1) p.2.2)
      exact ⟨q.active, q.clock⟩
    · simp only [h, Bool.false_eq_true, if_false]
      have q := q0.trans (quiet_finish p.1
        { recheckAuto p.1 p.2.1 with timeAfter := p.1.clock, accepted := false } false)
      exact ⟨q.active, q.clock⟩

/-- C03 (a transition not accepted by the resolver is canceled before any
    handler runs and changes nothing). -/
theorem C03_rejected_noop (orc : Oracle) (m0 : Mach) (t0 : Tx) (h : t0.accepted = false) :
    (emitEvents orc m0 t0).1.active = m0.active ∧ (emitEvents orc m0 t0).1.clock = m0.clock := by
  apply C03_negotiation_cancel_noop
  rw [h]
  simp only [negotiate]
  split
  · rfl
  · exact negStep_false _ _ (negStep_false _ _ (negStep_false _ _ (negStep_false _ _
      (negStep_false _ _ rfl))))

/-- C03 (check purity, transition level): a CanAdd/CanRemove transition never
    changes the active states or any tick, whatever the handlers do. -/
theorem C03_check_pure (orc : Oracle) (m0 : Mach) (t0 : Tx) (h : t0.mu.isCheck = true) :
    (emitEvents orc m0 t0).1.active = m0.active ∧ (emitEvents orc m0 t0).1.clock = m0.clock := by
  simp only [emitEvents]
  have k := negotiate_keeps orc (m0.emit (.tStart t0.accepted)) t0 t0.accepted
  have q0 : Quiet m0 (negotiate orc (m0.emit (.tStart t0.accepted)) t0 t0.accepted).1 :=
    (⟨rfl, rfl, rfl, rfl⟩ : Quiet m0 (m0.emit (.tStart t0.accepted))).trans k.chg
  have hc : (negotiate orc (m0.emit (.tStart t0.accepted)) t0 t0.accepted).2.1.mu.isCheck = true := by
    rw [k.mu]; exact h
  generalize negotiate orc (m0.emit (.tStart t0.accepted)) t0 t0.accepted = p at q0 hc ⊢
  split
  · exact ⟨q0.active, q0.clock⟩
  · exact ⟨(q0.trans (quiet_finish _ _ _)).active, (q0.trans (quiet_finish _ _ _)).clock⟩

/-- C03 (single application): in one transition the active states and the clock
    are written together, once, by `setActiveStates` on the resolver's target
    (an `apply` step) — or, after a handler fault only, by the recovery.
    This is the structural theorem instantiated to one transition. -/
theorem C03_single_apply {F : Prop} (orc : Oracle) (hF : OrcF F orc) (m : Mach) (mu : Mut)
    (rest : List Mut) : Chg F m (runOne orc m mu rest).1 :=
  chg_runOne orc hF m mu rest

end Am
