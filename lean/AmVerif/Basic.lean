def hello := "world"
