/- Helper lemmas about the list-set layer (core Lean only). -/
import AmVerif.Model.ListSet
namespace Am

@[simp] theorem mem_uniq {l : S} {x : Nat} : x ∈ uniq l ↔ x ∈ l := by
  induction l with
  | nil => simp [uniq]
  | cons a t ih =>
    simp only [uniq, List.mem_cons, List.mem_filter, ih]
    constructor
    · rintro (h | ⟨h, _⟩)
      · exact Or.inl h
      · exact Or.inr h
    · rintro (h | h)
      · exact Or.inl h
      · by_cases hx : x = a
        · exact Or.inl hx
        · exact Or.inr ⟨h, by simpa using hx⟩

theorem nodup_uniq (l : S) : (uniq l).Nodup := by
  induction l with
  | nil => simp [uniq]
  | cons a t ih =>
    simp only [uniq, List.nodup_cons, List.mem_filter]
    refine ⟨?_, ih.filter _⟩
    rintro ⟨_, h⟩
    simp at h

theorem uniq_of_nodup {l : S} (h : l.Nodup) : uniq l = l := by
  induction l with
  | nil => rfl
  | cons a t ih =>
    rw [List.nodup_cons] at h
    simp only [uniq, ih h.2]
    congr 1
    apply List.filter_eq_self.mpr
    intro y hy
    have : y ≠ a := fun e => h.1 (e ▸ hy)
    simpa using this

@[simp] theorem mem_diff {a b : S} {x : Nat} : x ∈ diff a b ↔ x ∈ a ∧ x ∉ b := by
  simp [diff]

@[simp] theorem mem_shared {a b : S} {x : Nat} : x ∈ shared a b ↔ x ∈ a ∧ x ∈ b := by
  simp [shared]

theorem every_iff {a b : S} : every a b = true ↔ ∀ x ∈ b, x ∈ a := by
  simp [every]

theorem noneOf_iff {a b : S} : noneOf a b = true ↔ ∀ x ∈ b, x ∉ a := by
  simp [noneOf]

theorem equal_iff {a b : S} : equal a b = true ↔ ∀ x, x ∈ a ↔ x ∈ b := by
  simp only [equal, Bool.and_eq_true, every_iff]
  constructor
  · rintro ⟨h1, h2⟩ x; exact ⟨h2 x, h1 x⟩
  · intro h; exact ⟨fun x hx => (h x).2 hx, fun x hx => (h x).1 hx⟩

theorem nodup_diff {a : S} (b : S) (h : a.Nodup) : (diff a b).Nodup := h.filter _

theorem mem_without_of_ne {l : S} {x y : Nat} (h : y ≠ x) : y ∈ without l x ↔ y ∈ l := by
  unfold without
  exact List.mem_erase_of_ne h

theorem mem_of_mem_without {l : S} {x y : Nat} (h : y ∈ without l x) : y ∈ l :=
  List.mem_of_mem_erase h

theorem nodup_without {l : S} (x : Nat) (h : l.Nodup) : (without l x).Nodup := h.erase x

theorem not_mem_without_of_nodup {l : S} {x : Nat} (h : l.Nodup) : x ∉ without l x :=
  fun hx => (List.Nodup.mem_erase_iff h).1 hx |>.1 rfl

/-- `sRem` on a duplicate-free source is set difference. -/
theorem mem_foldl_without_nodup (rm : S) : ∀ (l : S), l.Nodup → ∀ x,
    x ∈ rm.foldl without l ↔ x ∈ l ∧ x ∉ rm := by
  induction rm with
  | nil => intro l _ x; simp
  | cons r rs ih =>
    intro l hl x
    simp only [List.foldl_cons, List.mem_cons, not_or]
    rw [ih (without l r) (nodup_without r hl) x]
    constructor
    · rintro ⟨h1, h2⟩
      refine ⟨mem_of_mem_without h1, ?_, h2⟩
      intro e; subst e; exact not_mem_without_of_nodup hl h1
    · rintro ⟨h1, h2, h3⟩
      exact ⟨(mem_without_of_ne h2).2 h1, h3⟩

theorem nodup_foldl_without (rm : S) : ∀ (l : S), l.Nodup → (rm.foldl without l).Nodup := by
  induction rm with
  | nil => intro l h; simpa
  | cons r rs ih => intro l h; exact ih _ (nodup_without r h)

end Am
