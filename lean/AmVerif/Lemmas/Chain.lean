/-
  The structural theorem of the sequential model: whatever the schema, the
  handler oracle and the history, the machine's (active, clock) pair only ever
  changes through two atomic steps —
    * `apply`:   `setActiveStates` with a target produced by the resolver,
    * `recover`: `recoverFinalPhase` after a fault in a final handler
                 (only when the oracle can fault: parameter `F`),
  everything else (queueing, handler calls, tracers, negotiation — even with
  panics) leaves them alone. Every invariant of C01/C02/C03/C08 is then a
  small lemma about the two atomic steps.
-/
import AmVerif.Lemmas.Clock
import AmVerif.Lemmas.Resolver
namespace Am

/-- the latest handler was an Enter-side one, or carried no target state. -/
def FinalOk (t : Tx) : Prop := t.latestIsEnter = true ∨ t.latestTo = .none

/-- atomic changes of (active, clock); `F` = "the oracle may fault". -/
inductive Chg (F : Prop) : Mach → Mach → Prop
  | quiet {m m' : Mach} : m'.sch = m.sch → m'.topo = m.topo → m'.active = m.active →
      m'.clock = m.clock → Chg F m m'
  | apply {m : Mach} (c : RCtx) (toSet called : S) : c.sch = m.sch →
      Chg F m (applyActive m called (targetStates c toSet))
  | recover {m : Mach} (t : Tx) : F → FinalOk t → Chg F m (recoverFinalPhase m t)
  | trans {a b c : Mach} : Chg F a b → Chg F b c → Chg F a c

theorem Chg.refl {F : Prop} (m : Mach) : Chg F m m := Chg.quiet rfl rfl rfl rfl
theorem Chg.of_eq {F : Prop} {m m' : Mach} (hs : m'.sch = m.sch) (ht : m'.topo = m.topo)
    (ha : m'.active = m.active) (hc : m'.clock = m.clock) : Chg F m m' := Chg.quiet hs ht ha hc

theorem applyActive_sch (m : Mach) (c t : S) : (applyActive m c t).sch = m.sch := rfl
theorem applyActive_active (m : Mach) (c t : S) : (applyActive m c t).active = t := rfl
theorem applyActive_topo (m : Mach) (c t : S) : (applyActive m c t).topo = m.topo := rfl
theorem recoverFinalPhase_sch (m : Mach) (t : Tx) : (recoverFinalPhase m t).sch = m.sch := rfl
theorem recoverFinalPhase_topo (m : Mach) (t : Tx) : (recoverFinalPhase m t).topo = m.topo := rfl

theorem Chg.sch {F : Prop} {m m' : Mach} (h : Chg F m m') : m'.sch = m.sch := by
  induction h with
  | quiet hs _ _ _ => exact hs
  | apply _ _ _ _ => exact applyActive_sch _ _ _
  | recover _ _ _ => exact recoverFinalPhase_sch _ _
  | trans _ _ ih1 ih2 => exact ih2.trans ih1

theorem Chg.topo {F : Prop} {m m' : Mach} (h : Chg F m m') : m'.topo = m.topo := by
  induction h with
  | quiet _ ht _ _ => exact ht
  | apply _ _ _ _ => exact applyActive_topo _ _ _
  | recover _ _ _ => exact recoverFinalPhase_topo _ _
  | trans _ _ ih1 ih2 => exact ih2.trans ih1

/-- a fault-free run is a faulty run. -/
theorem Chg.weaken {F G : Prop} (fg : F → G) {m m' : Mach} (h : Chg F m m') : Chg G m m' := by
  induction h with
  | quiet a b c d => exact Chg.quiet a b c d
  | apply c ts cl h => exact Chg.apply c ts cl h
  | recover t f ok => exact Chg.recover t (fg f) ok
  | trans _ _ ih1 ih2 => exact Chg.trans ih1 ih2

/-- no change of schema, topology, active states or clock. -/
structure Quiet (m m' : Mach) : Prop where
  sch : m'.sch = m.sch
  topo : m'.topo = m.topo
  active : m'.active = m.active
  clock : m'.clock = m.clock

theorem Quiet.refl (m : Mach) : Quiet m m := ⟨rfl, rfl, rfl, rfl⟩
theorem Quiet.trans {a b c : Mach} (h1 : Quiet a b) (h2 : Quiet b c) : Quiet a c :=
  ⟨h2.sch.trans h1.sch, h2.topo.trans h1.topo, h2.active.trans h1.active, h2.clock.trans h1.clock⟩
theorem Quiet.toChg {F : Prop} {m m' : Mach} (h : Quiet m m') : Chg F m m' :=
  Chg.quiet h.sch h.topo h.active h.clock

/-- what handler calls can do: nothing, or (with a faulting oracle) a recovery. -/
inductive HChg (F : Prop) : Mach → Mach → Prop
  | quiet {m m' : Mach} : m'.sch = m.sch → m'.topo = m.topo → m'.active = m.active →
      m'.clock = m.clock → HChg F m m'
  | recover {m : Mach} (t : Tx) : F → FinalOk t → HChg F m (recoverFinalPhase m t)
  | trans {a b c : Mach} : HChg F a b → HChg F b c → HChg F a c

theorem HChg.refl {F : Prop} (m : Mach) : HChg F m m := HChg.quiet rfl rfl rfl rfl
theorem HChg.of_eq {F : Prop} {m m' : Mach} (hs : m'.sch = m.sch) (ht : m'.topo = m.topo)
    (ha : m'.active = m.active) (hc : m'.clock = m.clock) : HChg F m m' := HChg.quiet hs ht ha hc

theorem HChg.weaken {F G : Prop} (fg : F → G) {m m' : Mach} (h : HChg F m m') : HChg G m m' := by
  induction h with
  | quiet a b c d => exact HChg.quiet a b c d
  | recover t f ok => exact HChg.recover t (fg f) ok
  | trans _ _ ih1 ih2 => exact HChg.trans ih1 ih2

theorem HChg.toChg {F : Prop} {m m' : Mach} (h : HChg F m m') : Chg F m m' := by
  induction h with
  | quiet a b c d => exact Chg.quiet a b c d
  | recover t f ok => exact Chg.recover t f ok
  | trans _ _ ih1 ih2 => exact Chg.trans ih1 ih2

theorem HChg.quiet_of_false {m m' : Mach} (h : HChg False m m') : Quiet m m' := by
  induction h with
  | quiet a b c d => exact ⟨a, b, c, d⟩
  | recover _ f _ => exact f.elim
  | trans _ _ ih1 ih2 => exact ih1.trans ih2

section
variable {F : Prop}

theorem chg_emit (m : Mach) (e : Ev) : HChg F m (m.emit e) := HChg.of_eq rfl rfl rfl rfl
theorem chg_bump (m : Mach) (k : Nat × HName) : HChg F m (bumpCount m k) :=
  HChg.of_eq rfl rfl rfl rfl
theorem chg_prepend (m : Mach) (mu : Mut) : HChg F m (prepend m mu) := HChg.of_eq rfl rfl rfl rfl

theorem chg_queueMutation (m : Mach) (r : MutReq) : HChg F m (queueMutation m r).1 := by
  simp only [queueMutation]
  split
  · exact HChg.refl m
  · exact HChg.of_eq rfl rfl rfl rfl

theorem chg_issueNested (m : Mach) (r : MutReq) : HChg F m (issueNested m r).1 := by
  unfold issueNested
  split
  · exact HChg.refl m
  · split
    · exact HChg.refl m
    · have := chg_queueMutation (F := F) m r
      split <;> rename_i h <;> rw [h] at this <;> exact this

theorem chg_issueLogged (m : Mach) (r : MutReq) : HChg F m (issueLogged m r) :=
  (chg_issueNested m r).trans (chg_emit _ _)

theorem chg_foldl_issue (l : List MutReq) : ∀ m : Mach,
    HChg F m (l.foldl (fun mm r => issueLogged mm r) m) := by
  induction l with
  | nil => intro m; exact HChg.refl m
  | cons r rs ih => intro m; exact (chg_issueLogged m r).trans (ih _)

theorem chg_subLogged (m : Mach) (r : SubReq) : HChg F m (subLogged m r) := by
  unfold subLogged doSub
  split
  · split <;> exact HChg.of_eq rfl rfl rfl rfl
  · split <;> first | exact HChg.of_eq rfl rfl rfl rfl | (split <;> exact HChg.of_eq rfl rfl rfl rfl)

theorem chg_foldl_sub (l : List SubReq) : ∀ m : Mach,
    HChg F m (l.foldl (fun mm r => subLogged mm r) m) := by
  induction l with
  | nil => intro m; exact HChg.refl m
  | cons r rs ih => intro m; exact (chg_subLogged m r).trans (ih _)

theorem chg_whenArgsStage (m : Mach) (t : Tx) (name : HName) : HChg F m (whenArgsStage m t name) := by
  unfold whenArgsStage
  exact HChg.of_eq rfl rfl rfl rfl

/-- the oracle can only fault when `F` holds. -/
def OrcF (F : Prop) (orc : Oracle) : Prop :=
  ∀ b n k beh, orc b n k = some beh → (beh.act = .panic ∨ beh.act = .timeout) → F

theorem recoverToErr_chg (m : Mach) (t : Tx) (f : F) (hok : t.latestIsFinal = true → FinalOk t) :
    HChg F m (recoverToErr m t).1 := by
  unfold recoverToErr
  split
  · exact HChg.refl m
  · split
    · rename_i hf
      exact (HChg.recover t f (hok hf)).trans (chg_prepend _ _)
    · exact chg_prepend _ _

/-- without a final handler in flight, recovery leaves (active, clock) alone. -/
theorem recoverToErr_quiet (m : Mach) (t : Tx) (hnf : t.latestIsFinal = false) :
    HChg False m (recoverToErr m t).1 := by
  unfold recoverToErr
  split
  · exact HChg.refl m
  · simp only [hnf, Bool.false_eq_true, if_false]
    exact chg_prepend _ _

theorem recoverToErr_tx (m : Mach) (t : Tx) :
    (recoverToErr m t).2.target = t.target ∧ (recoverToErr m t).2.latestTo = t.latestTo ∧
    (recoverToErr m t).2.latestIsEnter = t.latestIsEnter ∧
    (recoverToErr m t).2.latestIsFinal = t.latestIsFinal ∧
    (recoverToErr m t).2.mu = t.mu ∧ (recoverToErr m t).2.before = t.before ∧
    (recoverToErr m t).2.enters = t.enters ∧ (recoverToErr m t).2.exits = t.exits ∧
    (recoverToErr m t).2.timeBefore = t.timeBefore ∧
    (recoverToErr m t).2.timeAfter = t.timeAfter := by
  unfold recoverToErr
  split <;> simp

/-- facts about a transition record that handler calls never change. -/
structure SameTx (t t' : Tx) : Prop where
  target : t'.target = t.target
  mu : t'.mu = t.mu
  before : t'.before = t.before
  enters : t'.enters = t.enters
  exits : t'.exits = t.exits
  timeBefore : t'.timeBefore = t.timeBefore
  timeAfter : t'.timeAfter = t.timeAfter

theorem SameTx.refl (t : Tx) : SameTx t t := ⟨rfl, rfl, rfl, rfl, rfl, rfl, rfl⟩
theorem SameTx.trans {a b c : Tx} (h1 : SameTx a b) (h2 : SameTx b c) : SameTx a c :=
  ⟨h2.target.trans h1.target, h2.mu.trans h1.mu, h2.before.trans h1.before,
   h2.enters.trans h1.enters, h2.exits.trans h1.exits, h2.timeBefore.trans h1.timeBefore,
   h2.timeAfter.trans h1.timeAfter⟩

structure SameLatest (t t' : Tx) : Prop where
  to : t'.latestTo = t.latestTo
  isEnter : t'.latestIsEnter = t.latestIsEnter
  isFinal : t'.latestIsFinal = t.latestIsFinal

/-- `processHandlers`: (active, clock) can change only by a recovery, which
    needs a faulting oracle *and* a final handler in flight; a final-phase call
    reports failure only after a fault. -/
theorem processHandlers_spec (orc : Oracle) (hF : OrcF F orc) (name : HName) :
    ∀ (live : List Nat) (m : Mach) (t : Tx) (pk : Bool),
    (t.latestIsFinal = true → FinalOk t) →
    HChg (F ∧ t.latestIsFinal = true) m (processHandlers orc name live m t pk).1 ∧
    SameTx t (processHandlers orc name live m t pk).2.1 ∧
    SameLatest t (processHandlers orc name live m t pk).2.1 ∧
    (name.isFinalName = true →
      ((processHandlers orc name live m t pk).2.2.res = false ∨
       (processHandlers orc name live m t pk).2.2.panicked = true) → pk = true ∨ F) := by
  intro live
  induction live with
  | nil =>
    intro m t pk _
    refine ⟨chg_whenArgsStage m t name, SameTx.refl t, ⟨rfl, rfl, rfl⟩, ?_⟩
    intro _ h
    simp only [processHandlers] at h
    rcases h with h | h
    · exact absurd h (by simp)
    · exact Or.inl h
  | cons b rest ih =>
    intro m t pk hok
    simp only [processHandlers]
    split
    · exact ih _ _ _ hok
    · rename_i beh horc
      split
      · split
        · exact ih _ _ _ hok
        · rename_i hnf
          refine ⟨HChg.refl m, SameTx.refl t, ⟨rfl, rfl, rfl⟩, ?_⟩
          intro hfin; exact absurd hfin hnf
      · have g1 : HChg (F ∧ t.latestIsFinal = true) m (handlerBody m b name beh) :=
          (((chg_bump m _).trans (chg_emit _ _)).trans (chg_foldl_issue _ _)).trans (chg_foldl_sub _ _)
        split
        · rename_i okv hact
          split
          · obtain ⟨h1, h2, h3, h4⟩ := ih (handlerBody m b name beh) t pk hok
            exact ⟨g1.trans h1, h2, h3, h4⟩
          · rename_i hcond
            refine ⟨g1, SameTx.refl t, ⟨rfl, rfl, rfl⟩, ?_⟩
            intro hfin
            simp [hfin] at hcond
        · rename_i d hact
          obtain ⟨h1, h2, h3, h4⟩ := ih (markDetached (handlerBody m b name beh) d) t pk hok
          have gd : HChg (F ∧ t.latestIsFinal = true)
              (handlerBody m b name beh)
              (markDetached (handlerBody m b name beh) d) :=
            HChg.of_eq rfl rfl rfl rfl
          exact ⟨(g1.trans gd).trans h1, h2, h3, h4⟩
        · rename_i hact
          have f : F := hF b name _ beh horc (Or.inr hact)
          exact ⟨g1.trans (chg_emit _ _), SameTx.refl t, ⟨rfl, rfl, rfl⟩, fun _ _ => Or.inr f⟩
        · rename_i hact
          have f : F := hF b name _ beh horc (Or.inl hact)
          have hr : HChg (F ∧ t.latestIsFinal = true)
              (handlerBody m b name beh)
              (recoverToErr (handlerBody m b name beh) t).1 := by
            by_cases hfin : t.latestIsFinal = true
            · exact recoverToErr_chg _ t ⟨f, hfin⟩ hok
            · exact (recoverToErr_quiet _ t (by simpa using hfin)).weaken (fun x => x.elim)
          obtain ⟨e1, e2, e3, e4, e5, e6, e7, e8, e9, e10⟩ := recoverToErr_tx
            (handlerBody m b name beh) t
          have st : SameTx t (recoverToErr (handlerBody m b name beh) t).2 := ⟨e1, e5, e6, e7, e8, e9, e10⟩
          have sl : SameLatest t (recoverToErr (handlerBody m b name beh) t).2 := ⟨e2, e3, e4⟩
          split
          · have hok' : (recoverToErr (handlerBody m b name beh) t).2.latestIsFinal = true →
                FinalOk (recoverToErr (handlerBody m b name beh) t).2 := by
              intro hf
              rw [e4] at hf
              unfold FinalOk
              rw [e3, e2]
              exact hok hf
            obtain ⟨h1, h2, h3, _⟩ := ih _ _ true hok'
            rw [e4] at h1
            exact ⟨(g1.trans hr).trans h1, st.trans h2,
              ⟨h3.to.trans sl.to, h3.isEnter.trans sl.isEnter, h3.isFinal.trans sl.isFinal⟩,
              fun _ _ => Or.inr f⟩
          · exact ⟨g1.trans hr, st, sl, fun _ _ => Or.inr f⟩

/-- `handle` in projection form. -/
theorem handle_proj (orc : Oracle) (hF : OrcF F orc) (m : Mach) (t : Tx) (name : HName)
    (to : ToState) (isFinal isEnter : Bool) (h : isFinal = true → (isEnter = true ∨ to = .none)) :
    HChg (F ∧ isFinal = true) m (handle orc m t name to isFinal isEnter).1 ∧
    SameTx t (handle orc m t name to isFinal isEnter).2.1 ∧
    (handle orc m t name to isFinal isEnter).2.1.latestTo = to ∧
    (handle orc m t name to isFinal isEnter).2.1.latestIsEnter = isEnter ∧
    (handle orc m t name to isFinal isEnter).2.1.latestIsFinal = isFinal ∧
    (name.isFinalName = true → (handle orc m t name to isFinal isEnter).2.2 = false → F) := by
  simp only [handle]
  obtain ⟨g, st, sl, hf⟩ := processHandlers_spec orc hF name m.live m
    { t with latestTo := to, latestIsEnter := isEnter, latestIsFinal := isFinal } false
    (by intro hf; exact h hf)
  refine ⟨g, ⟨st.target, st.mu, st.before, st.enters, st.exits, st.timeBefore, st.timeAfter⟩,
    sl.to, sl.isEnter, sl.isFinal, ?_⟩
  intro hn hfalse
  have : (processHandlers orc name m.live m
      { t with latestTo := to, latestIsEnter := isEnter, latestIsFinal := isFinal } false).2.2.res = false ∨
    (processHandlers orc name m.live m
      { t with latestTo := to, latestIsEnter := isEnter, latestIsFinal := isFinal } false).2.2.panicked = true := by
    revert hfalse
    cases (processHandlers orc name m.live m
      { t with latestTo := to, latestIsEnter := isEnter, latestIsFinal := isFinal } false).2.2.res <;>
    cases (processHandlers orc name m.live m
      { t with latestTo := to, latestIsEnter := isEnter, latestIsFinal := isFinal } false).2.2.panicked <;> simp
  rcases hf hn this with h | h
  · exact absurd h (by simp)
  · exact h

/-- a negotiation-phase handler call never touches (active, clock) — even when
    the handler panics or times out. -/
theorem handle_neg (orc : Oracle) (m : Mach) (t : Tx) (name : HName) (to : ToState) (isEnter : Bool) :
    Quiet m (handle orc m t name to false isEnter).1 ∧
    SameTx t (handle orc m t name to false isEnter).2.1 := by
  obtain ⟨g, st, _⟩ := handle_proj (F := True) orc (fun _ _ _ _ _ _ => trivial) m t name to false isEnter
    (by simp)
  exact ⟨(g.weaken (fun h => by simp at h)).quiet_of_false, st⟩

end

/-! ### negotiation loops -/

/-- what a negotiation loop may do to the machine and the transition record. -/
structure Keeps (m : Mach) (t : Tx) (m' : Mach) (t' : Tx) : Prop where
  chg : Quiet m m'
  tgtNA : t.mu.isAuto = false → t'.target = t.target
  mu : t'.mu = t.mu
  before : t'.before = t.before
  enters : t'.enters = t.enters
  exits : t'.exits = t.exits
  timeBefore : t'.timeBefore = t.timeBefore

theorem Keeps.refl (m : Mach) (t : Tx) : Keeps m t m t :=
  ⟨Quiet.refl m, fun _ => rfl, rfl, rfl, rfl, rfl, rfl⟩

theorem Keeps.trans {m1 m2 m3 : Mach} {t1 t2 t3 : Tx} (a : Keeps m1 t1 m2 t2)
    (b : Keeps m2 t2 m3 t3) : Keeps m1 t1 m3 t3 :=
  ⟨a.chg.trans b.chg, fun h => (b.tgtNA (a.mu ▸ h)).trans (a.tgtNA h), b.mu.trans a.mu,
   b.before.trans a.before, b.enters.trans a.enters, b.exits.trans a.exits,
   b.timeBefore.trans a.timeBefore⟩

theorem Keeps.of_handle {m m' : Mach} {t t' : Tx} (g : Quiet m m') (st : SameTx t t') :
    Keeps m t m' t' :=
  ⟨g, fun _ => st.target, st.mu, st.before, st.enters, st.exits, st.timeBefore⟩

theorem Keeps.setTarget {m : Mach} {t : Tx} (tg : S) (h : t.mu.isAuto = true) :
    Keeps m t m { t with target := tg } :=
  ⟨Quiet.refl m, fun hn => by rw [h] at hn; exact absurd hn (by simp), rfl, rfl, rfl, rfl, rfl⟩

theorem Keeps.crash {m : Mach} {t : Tx} : Keeps m t { m with crashed := true } t :=
  ⟨⟨rfl, rfl, rfl, rfl⟩, fun _ => rfl, rfl, rfl, rfl, rfl, rfl⟩

theorem emitExits_keeps (orc : Oracle) : ∀ (l : S) (m : Mach) (t : Tx),
    Keeps m t (emitExits orc l m t).1 (emitExits orc l m t).2.1 := by
  intro l
  induction l with
  | nil => intro m t; exact Keeps.refl m t
  | cons s rest ih =>
    intro m t
    simp only [emitExits]
    obtain ⟨g, st⟩ := handle_neg orc m t (.exit s) .none false
    have k1 := Keeps.of_handle g st
    split
    · exact k1.trans (ih _ _)
    · split
      · rename_i hauto
        have ha : (handle orc m t (.exit s) .none false false).2.1.mu.isAuto = true := by
          simp only [Bool.and_eq_true] at hauto; exact hauto.1
        split
        · exact (k1.trans (Keeps.setTarget _ ha)).trans (ih _ _)
        · exact k1
      · exact k1

theorem emitEnters_keeps (orc : Oracle) : ∀ (l : S) (m : Mach) (t : Tx),
    Keeps m t (emitEnters orc l m t).1 (emitEnters orc l m t).2.1 := by
  intro l
  induction l with
  | nil => intro m t; exact Keeps.refl m t
  | cons s rest ih =>
    intro m t
    simp only [emitEnters]
    obtain ⟨g, st⟩ := handle_neg orc m t (.enter s) (.st s) true
    have k1 := Keeps.of_handle g st
    split
    · exact k1.trans (ih _ _)
    · split
      · rename_i hauto
        have ha : (handle orc m t (.enter s) (.st s) false true).2.1.mu.isAuto = true := by
          simp only [Bool.and_eq_true] at hauto; exact hauto.1
        split
        · exact (k1.trans (Keeps.setTarget _ ha)).trans (ih _ _)
        · exact k1.trans Keeps.crash
      · exact k1

theorem emitSelfs_keeps (orc : Oracle) : ∀ (fuel i : Nat) (arr : List (Option Nat)) (m : Mach) (t : Tx),
    Keeps m t (emitSelfs orc fuel i arr m t).1 (emitSelfs orc fuel i arr m t).2.1 := by
  intro fuel
  induction fuel with
  | zero => intro i arr m t; exact Keeps.refl m t
  | succ n ih =>
    intro i arr m t
    simp only [emitSelfs]
    split
    · exact Keeps.refl m t
    · split
      · exact ih _ _ _ _
      · rename_i s _
        split
        · exact ih _ _ _ _
        · obtain ⟨g, st⟩ := handle_neg orc m t (.trans s s) (.st s) false
          have k1 := Keeps.of_handle g st
          split
          · exact k1.trans (ih _ _ _ _)
          · split
            · rename_i hauto
              have ha : (handle orc m t (.trans s s) (.st s) false false).2.1.mu.isAuto = true := by
                simp only [Bool.and_eq_true] at hauto; exact hauto.1
              split
              · exact k1.trans Keeps.crash
              · exact (k1.trans (Keeps.setTarget _ ha)).trans (ih _ _ _ _)
            · exact k1

theorem emitSSInner_keeps (orc : Oracle) (b : Nat) : ∀ (l : S) (m : Mach) (t : Tx),
    Keeps m t (emitSSInner orc b l m t).1 (emitSSInner orc b l m t).2.1 := by
  intro l
  induction l with
  | nil => intro m t; exact Keeps.refl m t
  | cons a rest ih =>
    intro m t
    simp only [emitSSInner]
    split
    · exact ih m t
    · obtain ⟨g, st⟩ := handle_neg orc m t (.trans b a) .none false
      have k1 := Keeps.of_handle g st
      split
      · exact k1.trans (ih _ _)
      · split
        · rename_i hauto
          have ha : (handle orc m t (.trans b a) .none false false).2.1.mu.isAuto = true := by
            simp only [Bool.and_eq_true] at hauto; exact hauto.1
          exact (k1.trans (Keeps.setTarget _ ha)).trans (ih _ _)
        · exact k1

theorem emitSS_keeps (orc : Oracle) (after : S) : ∀ (l : S) (m : Mach) (t : Tx),
    Keeps m t (emitSS orc after l m t).1 (emitSS orc after l m t).2.1 := by
  intro l
  induction l with
  | nil => intro m t; exact Keeps.refl m t
  | cons b rest ih =>
    intro m t
    simp only [emitSS]
    have k := emitSSInner_keeps orc b after m t
    split
    · exact k.trans (ih _ _)
    · exact k

theorem negStep_keeps (f : Mach → Tx → Mach × Tx × Bool)
    (hf : ∀ m t, Keeps m t (f m t).1 (f m t).2.1) (p : Mach × Tx × Bool) :
    Keeps p.1 p.2.1 (negStep f p).1 (negStep f p).2.1 := by
  unfold negStep
  split
  · exact Keeps.refl _ _
  · split
    · exact hf _ _
    · exact Keeps.refl _ _

theorem negStep_false (f : Mach → Tx → Mach × Tx × Bool) (p : Mach × Tx × Bool)
    (h : p.2.2 = false) : (negStep f p).2.2 = false := by
  unfold negStep
  split
  · rfl
  · split
    · rename_i h2; rw [h] at h2; exact absurd h2 (by simp)
    · exact h

theorem stageSelfs_keeps (orc : Oracle) (m : Mach) (t : Tx) :
    Keeps m t (stageSelfs orc m t).1 (stageSelfs orc m t).2.1 := by
  unfold stageSelfs
  split
  · exact emitSelfs_keeps orc _ _ _ m t
  · exact Keeps.refl m t

theorem stageAnyEnter_keeps (orc : Oracle) (m : Mach) (t : Tx) :
    Keeps m t (stageAnyEnter orc m t).1 (stageAnyEnter orc m t).2.1 := by
  unfold stageAnyEnter
  split
  · exact Keeps.refl m t
  · obtain ⟨g, st⟩ := handle_neg orc m t .anyEnter .any true
    exact Keeps.of_handle g st

/-- the whole negotiation phase — whatever the handlers do, panics included —
    leaves (active, clock) untouched and, for a non-auto mutation, the target. -/
theorem negotiate_keeps (orc : Oracle) (m : Mach) (t : Tx) (r : Bool) :
    Keeps m t (negotiate orc m t r).1 (negotiate orc m t r).2.1 := by
  unfold negotiate
  split
  · exact Keeps.refl m t
  · have k1 := negStep_keeps (fun m t => emitExits orc t.exits m t)
      (fun m t => emitExits_keeps orc _ m t) (m, t, r)
    have k2 := negStep_keeps (fun m t => emitEnters orc t.enters m t)
      (fun m t => emitEnters_keeps orc _ m t)
      (negStep (fun m t => emitExits orc t.exits m t) (m, t, r))
    have k3 := negStep_keeps (stageSelfs orc) (stageSelfs_keeps orc)
      (negStep (fun m t => emitEnters orc t.enters m t)
        (negStep (fun m t => emitExits orc t.exits m t) (m, t, r)))
    have k4 := negStep_keeps (fun m t => emitSS orc t.target t.before m t)
      (fun m t => emitSS_keeps orc _ _ m t)
      (negStep (stageSelfs orc) (negStep (fun m t => emitEnters orc t.enters m t)
        (negStep (fun m t => emitExits orc t.exits m t) (m, t, r))))
    have k5 := negStep_keeps (stageAnyEnter orc) (stageAnyEnter_keeps orc)
      (negStep (fun m t => emitSS orc t.target t.before m t)
        (negStep (stageSelfs orc) (negStep (fun m t => emitEnters orc t.enters m t)
          (negStep (fun m t => emitExits orc t.exits m t) (m, t, r)))))
    exact (((k1.trans k2).trans k3).trans k4).trans k5

/-! ### final phase, the transition, the queue -/

/-- the target was produced by the resolver for this schema. -/
def Resolved (sch : Schema) (t : Tx) : Prop :=
  ∃ c toSet, c.sch = sch ∧ t.target = targetStates c toSet

section
variable {F : Prop}

theorem emitFinals_spec (orc : Oracle) (hF : OrcF F orc) (enters : S) : ∀ (l : S) (m : Mach) (t : Tx),
    HChg F m (emitFinals orc enters l m t).1 ∧
    ((emitFinals orc enters l m t).2.2 = false → F ∧ FinalOk (emitFinals orc enters l m t).2.1) ∧
    (emitFinals orc enters l m t).2.1.mu = t.mu ∧
    (emitFinals orc enters l m t).2.1.timeBefore = t.timeBefore ∧
    (emitFinals orc enters l m t).2.1.timeAfter = t.timeAfter := by
  intro l
  induction l with
  | nil => intro m t; exact ⟨HChg.refl m, by simp [emitFinals], rfl, rfl, rfl⟩
  | cons s rest ih =>
    intro m t
    simp only [emitFinals]
    split
    · obtain ⟨g, st, _, h2, _, hf⟩ := handle_proj orc hF m t (.state s) (.st s) true true (by simp)
      have g' : HChg F m _ := g.weaken (fun h => h.1)
      split
      · obtain ⟨k2, f2, e1, e2, e3⟩ := ih (handle orc m t (.state s) (.st s) true true).1
          (handle orc m t (.state s) (.st s) true true).2.1
        exact ⟨g'.trans k2, f2, e1.trans st.mu, e2.trans st.timeBefore, e3.trans st.timeAfter⟩
      · rename_i hfalse
        exact ⟨g', fun _ => ⟨hf rfl (by simpa using hfalse), Or.inl h2⟩, st.mu, st.timeBefore, st.timeAfter⟩
    · obtain ⟨g, st, h1, _, _, hf⟩ := handle_proj orc hF m t (.end_ s) .none true false (by simp)
      have g' : HChg F m _ := g.weaken (fun h => h.1)
      split
      · obtain ⟨k2, f2, e1, e2, e3⟩ := ih (handle orc m t (.end_ s) .none true false).1
          (handle orc m t (.end_ s) .none true false).2.1
        exact ⟨g'.trans k2, f2, e1.trans st.mu, e2.trans st.timeBefore, e3.trans st.timeAfter⟩
      · rename_i hfalse
        exact ⟨g', fun _ => ⟨hf rfl (by simpa using hfalse), Or.inr h1⟩, st.mu, st.timeBefore, st.timeAfter⟩

theorem quiet_finish (m : Mach) (t : Tx) (r : Bool) : Quiet m (finish m t r).1 := by
  simp only [finish]
  split
  · exact ⟨rfl, rfl, rfl, rfl⟩
  · split <;> exact ⟨rfl, rfl, rfl, rfl⟩

theorem quiet_autoStage (m : Mach) (t : Tx) (c : Bool) : Quiet m (autoStage m t c) := by
  unfold autoStage
  split
  · split
    · exact ⟨rfl, rfl, rfl, rfl⟩
    · exact Quiet.refl m
  · exact Quiet.refl m

theorem chg_afterFinals (orc : Oracle) (hF : OrcF F orc) (m4 : Mach) (t4 : Tx) (r4 : Bool)
    (hok : r4 = false → F ∧ FinalOk t4) : Chg F m4 (afterFinals orc m4 t4 r4).1 := by
  simp only [afterFinals]
  have g5 : Chg F m4 (if (!r4) = true then recoverFinalPhase m4 t4 else m4) := by
    split
    · rename_i h
      obtain ⟨f, ok⟩ := hok (by simpa using h)
      exact Chg.recover t4 f ok
    · exact Chg.refl m4
  generalize (if (!r4) = true then recoverFinalPhase m4 t4 else m4) = m5 at g5 ⊢
  have g6 : Chg F m5 (if (r4 && m5.hasHandlers) = true then
      handle orc m5 t4 .anyState .any true true else (m5, t4, r4)).1 := by
    split
    · exact ((handle_proj orc hF m5 t4 .anyState .any true true (by simp)).1.weaken (fun h => h.1)).toChg
    · exact Chg.refl m5
  generalize (if (r4 && m5.hasHandlers) = true then
      handle orc m5 t4 .anyState .any true true else (m5, t4, r4)) = p6 at g6 ⊢
  split
  · exact (g5.trans g6).trans (quiet_finish _ _ _).toChg
  · exact ((g5.trans g6).trans (quiet_autoStage _ _ _).toChg).trans (quiet_finish _ _ _).toChg

theorem applyTarget_spec (m1 : Mach) (t2 : Tx) (h : Resolved m1.sch t2) :
    Chg F m1 (applyTarget m1 t2).1 ∧ (applyTarget m1 t2).2.mu = t2.mu ∧
    (applyTarget m1 t2).2.timeBefore = t2.timeBefore ∧
    (applyTarget m1 t2).2.timeAfter = (applyTarget m1 t2).1.clock := by
  obtain ⟨c, toSet, hc, htg⟩ := h
  refine ⟨?_, rfl, rfl, rfl⟩
  have g2 : Chg F m1 (applyActive m1 t2.mu.called t2.target) := by
    rw [htg]; exact Chg.apply c toSet _ hc
  exact g2.trans (Chg.of_eq rfl rfl rfl rfl)

theorem applyTarget_timeAfter (m1 : Mach) (t2 : Tx) :
    (applyTarget m1 t2).2.timeAfter = (applyTarget m1 t2).1.clock := rfl

theorem runFinals_spec (orc : Oracle) (hF : OrcF F orc) (m3 : Mach) (t3 : Tx) :
    HChg F m3 (runFinals orc m3 t3).1 ∧
    ((runFinals orc m3 t3).2.2 = false → F ∧ FinalOk (runFinals orc m3 t3).2.1) ∧
    (runFinals orc m3 t3).2.1.mu = t3.mu ∧
    (runFinals orc m3 t3).2.1.timeBefore = t3.timeBefore ∧
    (runFinals orc m3 t3).2.1.timeAfter = t3.timeAfter := by
  unfold runFinals
  split
  · exact emitFinals_spec orc hF _ _ m3 t3
  · exact ⟨HChg.refl m3, by simp, rfl, rfl, rfl⟩

theorem chg_applyPhase (orc : Oracle) (hF : OrcF F orc) (m1 : Mach) (t2 : Tx)
    (h : Resolved m1.sch t2) : Chg F m1 (applyPhase orc m1 t2).1 := by
  simp only [applyPhase]
  obtain ⟨g1, _, _, _⟩ := applyTarget_spec (F := F) m1 t2 h
  obtain ⟨g2, fo, _, _, _⟩ := runFinals_spec orc hF (applyTarget m1 t2).1 (applyTarget m1 t2).2
  exact (g1.trans g2.toChg).trans (chg_afterFinals orc hF _ _ _ fo)

end

@[simp] theorem setupAccepted_target (m : Mach) (t : Tx) : (setupAccepted m t).target = t.target := by
  simp only [setupAccepted]
  repeat' split
  all_goals rfl

@[simp] theorem setupExitEnter_target (m : Mach) (t : Tx) : (setupExitEnter m t).target = t.target := rfl

theorem recheckAuto_target_auto (m : Mach) (t : Tx) (h : t.mu.isAuto = true) :
    (recheckAuto m t).target = targetStates (m.rctx t)
      (statesToSet .add m.active (diff t.mu.called (diff t.mu.called t.target))) := by
  simp only [recheckAuto, h, if_true, setupExitEnter_target]

theorem recheckAuto_na (m : Mach) (t : Tx) (h : t.mu.isAuto = false) : recheckAuto m t = t := by
  simp only [recheckAuto, h, Bool.false_eq_true, if_false]

theorem recheckAuto_resolved (m : Mach) (t : Tx) (h : t.mu.isAuto = false → Resolved m.sch t) :
    Resolved m.sch (recheckAuto m t) := by
  cases ha : t.mu.isAuto with
  | true => exact ⟨m.rctx t, _, rfl, recheckAuto_target_auto m t ha⟩
  | false => rw [recheckAuto_na m t ha]; exact h ha

section
variable {F : Prop}

theorem chg_emitEvents (orc : Oracle) (hF : OrcF F orc) (m0 : Mach) (t0 : Tx)
    (h : Resolved m0.sch t0) : Chg F m0 (emitEvents orc m0 t0).1 := by
  simp only [emitEvents]
  have k := negotiate_keeps orc (m0.emit (.tStart t0.accepted)) t0 t0.accepted
  have q0 : Quiet m0 (negotiate orc (m0.emit (.tStart t0.accepted)) t0 t0.accepted).1 :=
    (⟨rfl, rfl, rfl, rfl⟩ : Quiet m0 (m0.emit (.tStart t0.accepted))).trans k.chg
  have hres : (negotiate orc (m0.emit (.tStart t0.accepted)) t0 t0.accepted).2.1.mu.isAuto = false →
      Resolved (negotiate orc (m0.emit (.tStart t0.accepted)) t0 t0.accepted).1.sch
        (negotiate orc (m0.emit (.tStart t0.accepted)) t0 t0.accepted).2.1 := by
    intro hna
    rw [k.mu] at hna
    obtain ⟨c, ts, hc, ht⟩ := h
    exact ⟨c, ts, hc.trans q0.sch.symm, (k.tgtNA hna).trans ht⟩
  generalize negotiate orc (m0.emit (.tStart t0.accepted)) t0 t0.accepted = p at q0 hres ⊢
  split
  · exact q0.toChg
  · split
    · exact (q0.trans (quiet_finish _ _ _)).toChg
    · split
      · exact q0.toChg.trans (chg_applyPhase orc hF _ _ (recheckAuto_resolved _ _ hres))
      · exact (q0.trans (quiet_finish _ _ _)).toChg

end

theorem newTx_spec (m : Mach) (mu : Mut) :
    Quiet m (newTx m mu).1 ∧ Resolved m.sch (newTx m mu).2 := by
  refine ⟨⟨rfl, rfl, rfl, rfl⟩, ?_⟩
  refine ⟨m.rctx { mu := mu, before := m.active, timeBefore := m.clock, timeAfter := m.clock, target := [] },
    statesToSet mu.kind m.active mu.called, rfl, ?_⟩
  simp only [newTx]
  split
  · simp only [setupExitEnter_target, setupAccepted_target]
  · simp only [setupAccepted_target]

section
variable {F : Prop}

theorem chg_runOne (orc : Oracle) (hF : OrcF F orc) (m : Mach) (mu : Mut) (rest : List Mut) :
    Chg F m (runOne orc m mu rest).1 := by
  simp only [runOne]
  have g1 : Quiet m (shiftQueue m mu rest) := by
    simp only [shiftQueue]
    split <;> exact ⟨rfl, rfl, rfl, rfl⟩
  obtain ⟨g2, hn⟩ := newTx_spec (shiftQueue m mu rest) mu
  have hn' : Resolved (newTx (shiftQueue m mu rest) mu).1.sch (newTx (shiftQueue m mu rest) mu).2 := by
    rw [g2.sch]; exact hn
  have g3 := (g1.trans g2).toChg.trans (chg_emitEvents (F := F) orc hF _ _ hn')
  split
  · exact g3
  · split
    · exact g3.trans (Chg.of_eq rfl rfl rfl rfl)
    · exact g3.trans (Chg.of_eq rfl rfl rfl rfl)

theorem chg_drain (orc : Oracle) (hF : OrcF F orc) : ∀ (fuel : Nat) (m : Mach) (rets : List Res),
    Chg F m (drain orc fuel m rets).1 := by
  intro fuel
  induction fuel with
  | zero => intro m rets; exact Chg.refl m
  | succ n ih =>
    intro m rets
    simp only [drain]
    split
    · exact Chg.refl m
    · rename_i mu rest _
      have g := chg_runOne orc hF m mu rest
      split
      · exact g
      · exact g.trans (ih _ _)

theorem chg_processQueue (orc : Oracle) (hF : OrcF F orc) (fuel : Nat) (m : Mach) :
    Chg F m (processQueue orc fuel m).1 := by
  simp only [processQueue]
  split
  · exact Chg.refl m
  · have g := chg_drain orc hF fuel m []
    split
    · exact g
    · exact g.trans (Chg.of_eq rfl rfl rfl rfl)

theorem chg_mutate (orc : Oracle) (hF : OrcF F orc) (fuel : Nat) (m : Mach) (r : MutReq) :
    Chg F m (mutate orc fuel m r).1 := by
  simp only [mutate]
  split
  · exact Chg.refl m
  · split
    · exact Chg.refl m
    · split
      · exact Chg.refl m
      · have g := (chg_queueMutation (F := F) m r).toChg
        split
        · rename_i m1 h; rw [h] at g; exact g
        · rename_i m1 tick h; rw [h] at g
          have g2 := chg_processQueue orc hF fuel m1
          split <;> exact g.trans g2

theorem chg_check (orc : Oracle) (hF : OrcF F orc) (fuel : Nat) (m : Mach) (k : MutKind) (st : S) :
    Chg F m (check orc fuel m k st).1 := by
  simp only [check]
  split
  · exact Chg.refl m
  · split
    · exact Chg.refl m
    · exact (chg_prepend (F := F) m _).toChg.trans (chg_processQueue orc hF fuel _)

theorem chg_toggle (orc : Oracle) (hF : OrcF F orc) (fuel : Nat) (m : Mach) (st : S) :
    Chg F m (toggle orc fuel m st).1 := by
  simp only [toggle]
  split <;> exact chg_mutate orc hF fuel m _

theorem chg_addErr (orc : Oracle) (hF : OrcF F orc) (fuel : Nat) (m : Mach) :
    Chg F m (addErr orc fuel m).1 := by
  simp only [addErr]
  split
  · exact Chg.refl m
  · exact chg_mutate orc hF fuel m _

end

/-! ### from atomic changes to invariants -/

structure Inv (m : Mach) : Prop where
  nodup : m.active.Nodup
  parity : Parity m.active m.clock

/-- `m'` is a legal successor of `m`: invariant kept, ticks only grow. -/
structure Good (m m' : Mach) : Prop where
  len : m'.clock.length = m.clock.length
  inv : Inv m → Inv m'
  mono : Inv m → ∀ j, j < m.clock.length → m.clock.getD j 0 ≤ m'.clock.getD j 0

theorem Good.refl (m : Mach) : Good m m := ⟨rfl, id, fun _ _ _ => Nat.le_refl _⟩

theorem Good.trans {a b c : Mach} (h1 : Good a b) (h2 : Good b c) : Good a c :=
  ⟨h2.len.trans h1.len, fun h => h2.inv (h1.inv h),
   fun h j hj => Nat.le_trans (h1.mono h j hj) (h2.mono (h1.inv h) j (h1.len ▸ hj))⟩

theorem good_applyActive (m : Mach) (called target : S) (ht : target.Nodup) :
    Good m (applyActive m called target) := by
  refine ⟨?_, ?_, ?_⟩
  · simp [applyActive, length_tickClock]
  · intro h
    exact ⟨ht, parity_tickClock m.sch m.active m.clock called target ht h.nodup h.parity⟩
  · intro h j hj
    exact mono_tickClock m.sch m.active m.clock called target ht h.nodup j hj

theorem recoverWalk_nodup_enter (t : Tx) (he : t.latestIsEnter = true) (finals : S) :
    ∀ (acc : S) (found : Bool), acc.Nodup → (recoverWalk t finals acc found).Nodup := by
  induction finals with
  | nil => intro acc found h; exact h
  | cons s rest ih =>
    intro acc found h
    simp only [recoverWalk, he, if_true]
    split
    · exact ih _ _ h
    · exact ih _ _ (nodup_without s h)

theorem recoverWalk_none (t : Tx) (hn : t.latestTo = .none) (finals : S) :
    ∀ (acc : S), recoverWalk t finals acc false = acc := by
  induction finals with
  | nil => intro acc; rfl
  | cons s rest ih =>
    intro acc
    have hne : (t.latestTo == ToState.st s) = false := by rw [hn]; rfl
    simp only [recoverWalk, hne, Bool.or_self, Bool.not_false, if_true]
    exact ih acc

theorem good_recoverFinalPhase (m : Mach) (t : Tx) (hok : FinalOk t) :
    Good m (recoverFinalPhase m t) := by
  unfold recoverFinalPhase
  by_cases hnd : m.active.Nodup
  · apply good_applyActive
    rcases hok with he | hn
    · exact recoverWalk_nodup_enter t he _ _ _ hnd
    · rw [recoverWalk_none t hn]; exact hnd
  · refine ⟨?_, fun h => absurd h.nodup hnd, fun h => absurd h.nodup hnd⟩
    simp [applyActive, length_tickClock]

theorem Chg.good {F : Prop} {m m' : Mach} (h : Chg F m m') : Good m m' := by
  induction h with
  | quiet _ _ ha hc =>
    exact ⟨by rw [hc], fun h => ⟨ha ▸ h.nodup, by rw [ha, hc]; exact h.parity⟩,
      fun _ j _ => by rw [hc]; exact Nat.le_refl _⟩
  | apply c ts cl _ => exact good_applyActive _ _ _ (targetStates_nodup _ _)
  | recover t _ ok => exact good_recoverFinalPhase _ t ok
  | trans _ _ ih1 ih2 => exact ih1.trans ih2

end Am
