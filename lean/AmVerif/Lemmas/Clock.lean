/- `setActiveStates` arithmetic: exact tick formula, parity, monotonicity. -/
import AmVerif.Model.Machine
import AmVerif.Lemmas.ListSet
namespace Am

theorem getD_incr (c : List Nat) (i j d : Nat) :
    (incr c i d).getD j 0 = if i = j ∧ i < c.length then c.getD j 0 + d else c.getD j 0 := by
  simp only [incr, List.getD_eq_getElem?_getD, List.getElem?_modify]
  by_cases h : i = j
  · subst h
    by_cases h2 : i < c.length
    · simp [h2]
    · simp [h2]
  · simp [h]

@[simp] theorem length_incr (c : List Nat) (i d : Nat) : (incr c i d).length = c.length := by
  simp [incr]

theorem length_foldl_incr (d : Nat → Nat) (l : S) : ∀ c : List Nat,
    (l.foldl (fun c x => incr c x (d x)) c).length = c.length := by
  induction l with
  | nil => intro c; rfl
  | cons a t ih => intro c; simp [List.foldl_cons, ih]

/-- folding `clock[x] += d x` over a duplicate-free list. -/
theorem getD_foldl_incr (d : Nat → Nat) (l : S) (hl : l.Nodup) : ∀ (c : List Nat) (j : Nat),
    j < c.length →
    (l.foldl (fun c x => incr c x (d x)) c).getD j 0 =
      c.getD j 0 + (if j ∈ l then d j else 0) := by
  induction l with
  | nil => intro c j _; simp
  | cons a t ih =>
    intro c j hj
    rw [List.nodup_cons] at hl
    simp only [List.foldl_cons]
    rw [ih hl.2 (incr c a (d a)) j (by simpa using hj), getD_incr]
    by_cases haj : a = j
    · subst haj
      have : a ∉ t := hl.1
      simp [this, hj]
    · have hja : j ≠ a := fun e => haj e.symm
      simp [haj, hja]

theorem length_tickClock (sch : Schema) (active : S) (clock : List Nat) (called target : S) :
    (tickClock sch active clock called target).length = clock.length := by
  unfold tickClock
  rw [length_foldl_incr (fun _ => 1), length_foldl_incr]

/-- the exact tick formula of `setActiveStates`. -/
theorem getD_tickClock (sch : Schema) (active : S) (clock : List Nat) (called target : S)
    (ht : target.Nodup) (ha : active.Nodup) (j : Nat) (hj : j < clock.length) :
    (tickClock sch active clock called target).getD j 0 =
      clock.getD j 0 + (if j ∈ target then tickDelta sch active called j else 0)
        + (if j ∈ active ∧ j ∉ target then 1 else 0) := by
  unfold tickClock
  rw [getD_foldl_incr (fun _ => 1) _ (nodup_diff _ ha) _ j (by rw [length_foldl_incr]; exact hj)]
  rw [getD_foldl_incr _ _ ht _ j hj]
  simp only [mem_diff]

/-- activity ↔ odd tick, for the `n` states of the machine. -/
def Parity (active : S) (clock : List Nat) : Prop :=
  ∀ j, j < clock.length → (j ∈ active ↔ clock.getD j 0 % 2 = 1)

theorem tickDelta_le (sch : Schema) (active called : S) (j : Nat) :
    tickDelta sch active called j ≤ 2 := by
  unfold tickDelta
  split
  · omega
  · split <;> omega

theorem tickDelta_of_mem {sch : Schema} {active called : S} {j : Nat} (h : j ∈ active) :
    tickDelta sch active called j = 0 ∨ tickDelta sch active called j = 2 := by
  unfold tickDelta
  have : active.contains j = true := by simpa using h
  simp only [this, Bool.not_true, Bool.false_eq_true, if_false]
  split <;> simp

theorem tickDelta_of_not_mem {sch : Schema} {active called : S} {j : Nat} (h : j ∉ active) :
    tickDelta sch active called j = 1 := by
  unfold tickDelta
  have : active.contains j = false := by simpa using h
  simp only [this, Bool.not_false, if_true]

/-- `setActiveStates` keeps tick parity = activity. -/
theorem parity_tickClock (sch : Schema) (active : S) (clock : List Nat) (called target : S)
    (ht : target.Nodup) (ha : active.Nodup) (hp : Parity active clock) :
    Parity target (tickClock sch active clock called target) := by
  intro j hj
  rw [length_tickClock] at hj
  rw [getD_tickClock sch active clock called target ht ha j hj]
  have hpj := hp j hj
  generalize clock.getD j 0 = v at hpj ⊢
  by_cases h1 : j ∈ target <;> by_cases h2 : j ∈ active
  · have hv : v % 2 = 1 := hpj.1 h2
    rcases tickDelta_of_mem (sch := sch) (called := called) h2 with h | h <;>
      simp only [h1, h2, h, if_true, not_true, and_false, if_false, true_iff] <;> omega
  · have hv : ¬ v % 2 = 1 := fun h => h2 (hpj.2 h)
    simp only [h1, h2, tickDelta_of_not_mem h2, if_true, false_and, if_false, true_iff]; omega
  · have hv : v % 2 = 1 := hpj.1 h2
    simp only [h1, h2, if_false, not_false_eq_true, and_self, if_true, false_iff]; omega
  · have hv : ¬ v % 2 = 1 := fun h => h2 (hpj.2 h)
    simp only [h1, h2, if_false, false_and, false_iff]; omega

/-- ticks never decrease. -/
theorem mono_tickClock (sch : Schema) (active : S) (clock : List Nat) (called target : S)
    (ht : target.Nodup) (ha : active.Nodup) (j : Nat) (hj : j < clock.length) :
    clock.getD j 0 ≤ (tickClock sch active clock called target).getD j 0 := by
  rw [getD_tickClock sch active clock called target ht ha j hj]; omega

/-- the documented step: +1 iff activity flipped, +2 iff an active, directly
    called Multi state stays active, else 0. -/
theorem step_tickClock (sch : Schema) (active : S) (clock : List Nat) (called target : S)
    (ht : target.Nodup) (ha : active.Nodup) (j : Nat) (hj : j < clock.length) :
    (tickClock sch active clock called target).getD j 0 - clock.getD j 0 =
      if (j ∈ active) ≠ (j ∈ target) then 1
      else if j ∈ active ∧ j ∈ target ∧ j ∈ called ∧ (sch.get j).multi = true then 2
      else 0 := by
  rw [getD_tickClock sch active clock called target ht ha j hj]
  generalize clock.getD j 0 = v
  by_cases h1 : j ∈ target <;> by_cases h2 : j ∈ active
  · have hc : active.contains j = true := by simpa using h2
    simp only [h1, h2, tickDelta, hc, if_true, not_true, and_false, if_false, ne_eq,
      Bool.not_true, Bool.false_eq_true, true_and, Bool.and_eq_true, List.contains_iff_mem]
    split <;> omega
  · simp only [h1, h2, tickDelta_of_not_mem h2, if_true, false_and, if_false, ne_eq]
    simp
  · simp only [h1, h2, if_false, not_false_eq_true, and_self, if_true, ne_eq]
    simp
  · simp only [h1, h2, if_false, false_and, ne_eq, not_true, and_false]
    simp

end Am
