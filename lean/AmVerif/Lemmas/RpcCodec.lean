/- Helper lemmas for the RPC codec (core Lean only). -/
import AmVerif.Model.RpcCodec
import AmVerif.Lemmas.Clock
namespace Am.Rpc
open Am

theorem addAt_eq_incr (t : List Nat) (i v : Nat) : addAt t i v = incr t i v := rfl

theorem sum_incr : ∀ (c : List Nat) (i d : Nat), i < c.length → (incr c i d).sum = c.sum + d := by
  intro c
  induction c with
  | nil => intro i d h; simp at h
  | cons a t ih =>
    intro i d h
    cases i with
    | zero => simp [incr, List.modify]; omega
    | succ k =>
      have hk : k < t.length := by simpa using h
      have := ih k d hk
      simp only [incr] at this ⊢
      simp only [List.modify_succ_cons, List.sum_cons, this]
      omega

theorem incr_zero : ∀ (c : List Nat) (i : Nat), incr c i 0 = c := by
  intro c
  induction c with
  | nil => intro i; cases i <;> rfl
  | cons a t ih =>
    intro i
    cases i with
    | zero => simp [incr, List.modify]
    | succ k =>
      have := ih k
      simp only [incr] at this ⊢
      simp only [List.modify_succ_cons, this]

/-- folding `t[p] += d p` over a list of in-range indices: the sum. -/
theorem sum_foldl_incr (d : Nat → Nat) (l : List Nat) : ∀ (c : List Nat),
    (∀ p ∈ l, p < c.length) →
    (l.foldl (fun c x => incr c x (d x)) c).sum = c.sum + (l.map d).sum := by
  induction l with
  | nil => intro c _; simp
  | cons a t ih =>
    intro c h
    simp only [List.foldl_cons, List.map_cons, List.sum_cons]
    rw [ih (incr c a (d a)) (by intro p hp; simpa using h p (List.mem_cons_of_mem _ hp))]
    rw [sum_incr c a (d a) (h a (by simp))]
    omega

end Am.Rpc

namespace Am.Rpc
open Am

/-- the indices a deep/shallow update can carry. -/
def pushedList (c : Cfg) : List Nat :=
  if c.syncSchema then c.tracked else List.range c.tracked.length

/-- the loop of `clockFromUpdate`. -/
def applyPairs (ps : List (Nat × Nat)) (t : List Nat) : List Nat :=
  ps.foldl (fun t p => if p.1 < t.length then addAt t p.1 p.2 else t) t

theorem zip_map_fst_snd (ps : List (Nat × Nat)) : (ps.map (·.1)).zip (ps.map (·.2)) = ps := by
  induction ps with
  | nil => rfl
  | cons a t ih => simp [ih]

theorem length_applyPairs (ps : List (Nat × Nat)) : ∀ t, (applyPairs ps t).length = t.length := by
  induction ps with
  | nil => intro t; rfl
  | cons a r ih =>
    intro t
    simp only [applyPairs, List.foldl_cons]
    split
    · have := ih (addAt t a.1 a.2); simp only [applyPairs] at this; rw [this]; simp [addAt]
    · exact ih t

/-- the sum after applying pairs: every in-range pair adds its tick. -/
theorem sum_applyPairs (ps : List (Nat × Nat)) : ∀ t,
    (applyPairs ps t).sum = t.sum + ((ps.filter (fun p => p.1 < t.length)).map (·.2)).sum := by
  induction ps with
  | nil => intro t; simp [applyPairs]
  | cons a r ih =>
    intro t
    simp only [applyPairs, List.foldl_cons]
    split
    · rename_i h
      have := ih (addAt t a.1 a.2)
      simp only [applyPairs] at this
      rw [this]
      have hl : (addAt t a.1 a.2).length = t.length := by simp [addAt]
      rw [hl, addAt_eq_incr, sum_incr t a.1 a.2 h]
      simp [List.filter_cons, h]
      omega
    · rename_i h
      have := ih t
      simp only [applyPairs] at this
      rw [this]
      simp [List.filter_cons, h]

/-- abstract form of the deep diff over a list of pushed indices. -/
def deepPairs (dnow dprev : List Nat) (P : List Nat) : List (Nat × Nat) :=
  P.filterMap (fun p => if dprev.getD p 0 != dnow.getD p 0
    then some (p, dnow.getD p 0 - dprev.getD p 0) else none)

/-- skipping unchanged states is the same as adding 0 to them. -/
theorem applyPairs_deepPairs (dnow dprev : List Nat) (P : List Nat) : ∀ (t : List Nat),
    (∀ p ∈ P, p < t.length) → (∀ p ∈ P, dprev.getD p 0 ≤ dnow.getD p 0) →
    applyPairs (deepPairs dnow dprev P) t =
      P.foldl (fun t p => incr t p (dnow.getD p 0 - dprev.getD p 0)) t := by
  induction P with
  | nil => intro t _ _; rfl
  | cons a r ih =>
    intro t hlt hle
    simp only [deepPairs, List.filterMap_cons, List.foldl_cons]
    have hlen : (incr t a (dnow.getD a 0 - dprev.getD a 0)).length = t.length := by simp
    have ih' := ih (incr t a (dnow.getD a 0 - dprev.getD a 0))
      (by intro p hp; rw [hlen]; exact hlt p (List.mem_cons_of_mem _ hp))
      (by intro p hp; exact hle p (List.mem_cons_of_mem _ hp))
    by_cases he : dprev.getD a 0 = dnow.getD a 0
    · have hf : (if (dprev.getD a 0 != dnow.getD a 0) = true
          then some (a, dnow.getD a 0 - dprev.getD a 0) else none) = none := by
        rw [he, bne_self_eq_false]; rfl
      rw [hf]
      rw [he, Nat.sub_self, incr_zero] at ih' ⊢
      have := ih t (by intro p hp; exact hlt p (List.mem_cons_of_mem _ hp))
        (by intro p hp; exact hle p (List.mem_cons_of_mem _ hp))
      simpa [deepPairs] using this
    · have hf : (if (dprev.getD a 0 != dnow.getD a 0) = true
          then some (a, dnow.getD a 0 - dprev.getD a 0) else none) =
          some (a, dnow.getD a 0 - dprev.getD a 0) := by
        rw [if_pos (bne_iff_ne.2 he)]
      rw [hf]
      simp only [applyPairs, List.foldl_cons, hlt a (by simp), if_true]
      exact ih'

end Am.Rpc

namespace Am.Rpc
open Am

theorem subMod_eq {a b n : Nat} (h1 : b ≤ a) (h2 : a - b < n) : subMod a b n = a - b := by
  unfold subMod
  have : ((a : Int) - (b : Int)) = ((a - b : Nat) : Int) := by omega
  rw [this]
  have h3 : (((a - b : Nat) : Int) % (n : Int)) = ((a - b : Nat) : Int) := by
    apply Int.emod_eq_of_lt <;> omega
  rw [h3]; simp

theorem filterMap_congr' {α β : Type} {f g : α → Option β} : ∀ {l : List α},
    (∀ x ∈ l, f x = g x) → l.filterMap f = l.filterMap g := by
  intro l
  induction l with
  | nil => intro _; rfl
  | cons a t ih =>
    intro h
    simp only [List.filterMap_cons, h a (by simp)]
    rw [ih (fun x hx => h x (List.mem_cons_of_mem _ hx))]

theorem map_getD_range (l : List Nat) : (List.range l.length).map (fun k => l.getD k 0) = l := by
  apply List.ext_getElem
  · simp
  · intro i h1 h2
    simp at h1
    simp [List.getD_eq_getElem?_getD, h1]

/-- under the stated guards `genDeepUpdate` is the abstract deep diff. -/
theorem genDeep_eq (c : Cfg) (now prev : List Nat) (hk : c.tracked.length ≤ prev.length)
    (hP : ∀ p ∈ pushedList c, p < 65536 ∧ prev.getD p 0 ≤ now.getD p 0 ∧
      now.getD p 0 - prev.getD p 0 < 4294967296) :
    genDeep c now prev = deepPairs now prev (pushedList c) := by
  have key : ∀ k, k < c.tracked.length → pushedIdx c k (c.tracked.getD k 0) ∈ pushedList c := by
    intro k hk'
    unfold pushedIdx pushedList
    split
    · simp only [List.getD_eq_getElem?_getD, List.getElem?_eq_getElem hk', Option.getD_some]
      exact List.getElem_mem hk'
    · simpa using hk'
  have hfun : ∀ k ∈ List.range c.tracked.length,
      (let p := pushedIdx c k (c.tracked.getD k 0)
       if k ≥ prev.length then
         if now.getD k 0 == 0 then none else some (p % 65536, now.getD p 0 % 4294967296)
       else if prev.getD p 0 != now.getD p 0 then
         some (p % 65536, subMod (now.getD p 0) (prev.getD p 0) 4294967296)
       else none) =
      (fun p => if prev.getD p 0 != now.getD p 0
        then some (p, now.getD p 0 - prev.getD p 0) else none)
        (pushedIdx c k (c.tracked.getD k 0)) := by
    intro k hkr
    have hk' : k < c.tracked.length := by simpa using hkr
    obtain ⟨h1, h2, h3⟩ := hP _ (key k hk')
    have hlt : ¬ k ≥ prev.length := by omega
    simp only [hlt, if_false]
    split
    · rw [Nat.mod_eq_of_lt h1, subMod_eq h2 h3]
    · rfl
  unfold genDeep deepPairs
  rw [filterMap_congr' hfun]
  unfold pushedList
  split
  · rename_i hs
    have : (fun k => (fun p => if (prev.getD p 0 != now.getD p 0) = true
        then some (p, now.getD p 0 - prev.getD p 0) else none)
        (pushedIdx c k (c.tracked.getD k 0))) =
        (fun p => if (prev.getD p 0 != now.getD p 0) = true
        then some (p, now.getD p 0 - prev.getD p 0) else none) ∘ (fun k => c.tracked.getD k 0) := by
      funext k; simp [pushedIdx, hs]
    rw [this, ← List.filterMap_map, map_getD_range]
  · rename_i hs
    have : (fun k => (fun p => if (prev.getD p 0 != now.getD p 0) = true
        then some (p, now.getD p 0 - prev.getD p 0) else none)
        (pushedIdx c k (c.tracked.getD k 0))) =
        (fun p => if (prev.getD p 0 != now.getD p 0) = true
        then some (p, now.getD p 0 - prev.getD p 0) else none) := by
      funext k; simp [pushedIdx, hs]
    rw [this]

end Am.Rpc
