/- Helper lemmas about the resolver (core Lean only). -/
import AmVerif.Model.Resolver
import AmVerif.Lemmas.ListSet
namespace Am

/-! ### insertion sort is a permutation -/

theorem insertRev_perm (less : Nat → Nat → Bool) (x : Nat) (l : S) :
    (insertRev less x l).Perm (x :: l) := by
  induction l with
  | nil => simp [insertRev]
  | cons y ys ih =>
    simp only [insertRev]
    split
    · exact (List.Perm.cons y ih).trans (List.Perm.swap x y ys)
    · exact List.Perm.refl _

theorem foldl_insertRev_perm (less : Nat → Nat → Bool) (l : S) : ∀ acc : S,
    (l.foldl (fun acc x => insertRev less x acc) acc).Perm (l.reverse ++ acc) := by
  induction l with
  | nil => intro acc; simp
  | cons x xs ih =>
    intro acc
    simp only [List.foldl_cons, List.reverse_cons, List.append_assoc, List.singleton_append]
    refine (ih _).trans ?_
    exact List.Perm.append_left _ (insertRev_perm less x acc)

theorem isort_perm (less : Nat → Nat → Bool) (l : S) : (isort less l).Perm l := by
  unfold isort
  refine (List.reverse_perm _).trans ?_
  refine (foldl_insertRev_perm less l []).trans ?_
  simpa using List.reverse_perm l

@[simp] theorem mem_isort {less : Nat → Nat → Bool} {l : S} {x : Nat} :
    x ∈ isort less l ↔ x ∈ l := (isort_perm less l).mem_iff

theorem nodup_isort {less : Nat → Nat → Bool} {l : S} (h : l.Nodup) : (isort less l).Nodup :=
  (isort_perm less l).nodup_iff.2 h

@[simp] theorem mem_sortStates {sch : Schema} {topo l : S} {x : Nat} :
    x ∈ sortStates sch topo l ↔ x ∈ l := by
  simp [sortStates, sortRequire]

theorem nodup_sortStates {sch : Schema} {topo l : S} (h : l.Nodup) :
    (sortStates sch topo l).Nodup := nodup_isort (nodup_isort h)

theorem sortStates_perm (sch : Schema) (topo l : S) : (sortStates sch topo l).Perm l :=
  (isort_perm _ _).trans (isort_perm _ _)

/-! ### parseRequire -/

theorem reqPass_sublist (sch : Schema) (l : S) : (reqPass sch l).Sublist l :=
  List.filter_sublist

theorem mem_reqPass {sch : Schema} {l : S} {x : Nat} :
    x ∈ reqPass sch l ↔ x ∈ l ∧ ∀ r ∈ (sch.get x).require, r ∈ l := by
  simp [reqPass]

/-- a pass that keeps the length keeps the list. -/
theorem reqPass_eq_of_length {sch : Schema} {l : S}
    (h : (reqPass sch l).length = l.length) : reqPass sch l = l :=
  (reqPass_sublist sch l).eq_of_length h

/-- closed under Require: a fixpoint of the filter. -/
def ReqClosed (sch : Schema) (l : S) : Prop :=
  ∀ x ∈ l, ∀ r ∈ (sch.get x).require, r ∈ l

theorem reqClosed_of_fix {sch : Schema} {l : S} (h : reqPass sch l = l) : ReqClosed sch l := by
  intro x hx r hr
  rw [← h] at hx
  exact (mem_reqPass.1 hx).2 r hr

theorem parseRequireLoop_closed (sch : Schema) : ∀ (fuel : Nat) (l : S), l.length < fuel →
    ReqClosed sch (parseRequireLoop sch fuel l) := by
  intro fuel
  induction fuel with
  | zero => intro l h; omega
  | succ n ih =>
    intro l hl
    simp only [parseRequireLoop]
    split
    · rename_i heq
      have heq' : (reqPass sch l).length = l.length := by simpa using heq
      have := reqPass_eq_of_length heq'
      rw [this]
      exact reqClosed_of_fix this
    · rename_i hne
      have hle := (reqPass_sublist sch l).length_le
      have hne' : (reqPass sch l).length ≠ l.length := by simpa using hne
      exact ih _ (by omega)

theorem parseRequire_closed (sch : Schema) (l : S) : ReqClosed sch (parseRequire sch l) :=
  parseRequireLoop_closed sch _ l (by omega)

theorem parseRequireLoop_sublist (sch : Schema) : ∀ (fuel : Nat) (l : S),
    (parseRequireLoop sch fuel l).Sublist l := by
  intro fuel
  induction fuel with
  | zero => intro l; exact List.Sublist.refl _
  | succ n ih =>
    intro l
    simp only [parseRequireLoop]
    split
    · exact reqPass_sublist sch l
    · exact (ih _).trans (reqPass_sublist sch l)

theorem parseRequire_sublist (sch : Schema) (l : S) : (parseRequire sch l).Sublist l :=
  parseRequireLoop_sublist sch _ l

theorem nodup_parseRequire {sch : Schema} {l : S} (h : l.Nodup) : (parseRequire sch l).Nodup :=
  (parseRequire_sublist sch l).nodup h

/-- every Require-closed subset of the input survives `parseRequire`
    (so the result is the *largest* closed subset). -/
theorem parseRequireLoop_greatest (sch : Schema) (c : S) (hc : ReqClosed sch c) :
    ∀ (fuel : Nat) (l : S), (∀ x ∈ c, x ∈ l) → ∀ x ∈ c, x ∈ parseRequireLoop sch fuel l := by
  intro fuel
  induction fuel with
  | zero => intro l h x hx; exact h x hx
  | succ n ih =>
    intro l h x hx
    have hpass : ∀ y ∈ c, y ∈ reqPass sch l := fun y hy =>
      mem_reqPass.2 ⟨h y hy, fun r hr => h r (hc y hy r hr)⟩
    simp only [parseRequireLoop]
    split
    · exact hpass x hx
    · exact ih _ hpass x hx

theorem parseRequire_greatest (sch : Schema) (c l : S) (hc : ReqClosed sch c)
    (h : ∀ x ∈ c, x ∈ l) : ∀ x ∈ c, x ∈ parseRequire sch l :=
  parseRequireLoop_greatest sch c hc _ l h

/-- monotone in the input set. -/
theorem parseRequire_mono (sch : Schema) (l1 l2 : S) (h : ∀ x ∈ l1, x ∈ l2) :
    ∀ x ∈ parseRequire sch l1, x ∈ parseRequire sch l2 :=
  parseRequire_greatest sch _ l2 (parseRequire_closed sch l1)
    (fun x hx => h x ((parseRequire_sublist sch l1).subset hx))

/-! ### target states -/

theorem targetUnsorted_closed (c : RCtx) (toSet : S) : ReqClosed c.sch (targetUnsorted c toSet) := by
  unfold targetUnsorted
  exact parseRequire_closed _ _

theorem targetUnsorted_nodup (c : RCtx) (toSet : S) : (targetUnsorted c toSet).Nodup := by
  unfold targetUnsorted
  apply nodup_parseRequire
  exact (List.reverse_perm _).nodup_iff.2 (nodup_uniq _)

theorem targetStates_closed (c : RCtx) (toSet : S) : ReqClosed c.sch (targetStates c toSet) := by
  intro x hx r hr
  simp only [targetStates, mem_sortStates] at *
  exact targetUnsorted_closed c toSet x hx r hr

theorem targetStates_nodup (c : RCtx) (toSet : S) : (targetStates c toSet).Nodup :=
  nodup_sortStates (targetUnsorted_nodup c toSet)

/-! ### what the two sorting passes guarantee -/

/-- with a comparator that is `false` on every pair of the list, insertion sort
    is the identity. -/
theorem foldl_insertRev_id (less : Nat → Nat → Bool) (l : S) : ∀ (acc : S),
    (∀ x y, x ∈ l ++ acc → y ∈ l ++ acc → less x y = false) →
    l.foldl (fun acc x => insertRev less x acc) acc = l.reverse ++ acc := by
  induction l with
  | nil => intro acc _; simp
  | cons a t ih =>
    intro acc h
    simp only [List.foldl_cons, List.reverse_cons, List.append_assoc, List.singleton_append]
    have ha : insertRev less a acc = a :: acc := by
      cases acc with
      | nil => rfl
      | cons y ys =>
        simp only [insertRev]
        rw [h a y (by simp) (by simp)]
        simp
    rw [ha]
    apply ih
    intro x y hx hy
    apply h x y
    · simp only [List.mem_append, List.mem_cons] at hx ⊢
      rcases hx with hx | hx | hx
      · exact Or.inl (Or.inr hx)
      · exact Or.inl (Or.inl hx)
      · exact Or.inr hx
    · simp only [List.mem_append, List.mem_cons] at hy ⊢
      rcases hy with hy | hy | hy
      · exact Or.inl (Or.inr hy)
      · exact Or.inl (Or.inl hy)
      · exact Or.inr hy

theorem isort_id_of_false (less : Nat → Nat → Bool) (l : S)
    (h : ∀ x y, x ∈ l → y ∈ l → less x y = false) : isort less l = l := by
  unfold isort
  rw [foldl_insertRev_id less l [] (by simpa using h)]
  simp

/-- insertion sort by a key: the reversed prefix stays sorted descending. -/
theorem insertRev_sorted (key : Nat → Nat) (x : Nat) : ∀ (l : S),
    l.Pairwise (fun a b => key b ≤ key a) →
    (insertRev (fun a b => key a < key b) x l).Pairwise (fun a b => key b ≤ key a) := by
  intro l
  induction l with
  | nil => intro _; simp [insertRev]
  | cons y ys ih =>
    intro h
    rw [List.pairwise_cons] at h
    simp only [insertRev]
    split
    · rename_i hlt
      have hlt' : key x < key y := by simpa using hlt
      rw [List.pairwise_cons]
      refine ⟨?_, ih h.2⟩
      intro z hz
      have := (insertRev_perm (fun a b => decide (key a < key b)) x ys).mem_iff.1 hz
      rcases List.mem_cons.1 this with e | e
      · subst e; omega
      · exact h.1 z e
    · rename_i hnlt
      have hge : key y ≤ key x := by
        have : ¬ key x < key y := by simpa using hnlt
        omega
      rw [List.pairwise_cons]
      refine ⟨?_, List.pairwise_cons.2 h⟩
      intro z hz
      rcases List.mem_cons.1 hz with e | e
      · subst e; exact hge
      · have := h.1 z e; omega

theorem foldl_insertRev_sorted (key : Nat → Nat) (l : S) : ∀ (acc : S),
    acc.Pairwise (fun a b => key b ≤ key a) →
    (l.foldl (fun acc x => insertRev (fun a b => key a < key b) x acc) acc).Pairwise
      (fun a b => key b ≤ key a) := by
  induction l with
  | nil => intro acc h; exact h
  | cons a t ih => intro acc h; exact ih _ (insertRev_sorted key a acc h)

/-- `sortRequire` leaves the list sorted by topology index. -/
theorem sortRequire_sorted (topo l : S) :
    (sortRequire topo l).Pairwise (fun a b => topoKey topo a ≤ topoKey topo b) := by
  unfold sortRequire isort
  rw [List.pairwise_reverse]
  exact foldl_insertRev_sorted (topoKey topo) l [] List.Pairwise.nil

end Am

namespace Am

/-! ### membership in `parseAdd` -/

/-- `z` appears in some state's Add relation. -/
def IsAddTarget (sch : Schema) (z : Nat) : Prop := ∃ w, z ∈ (sch.get w).add

theorem mem_addStatesOf {c : RCtx} {name z : Nat} (h : z ∈ addStatesOf c name) :
    IsAddTarget c.sch z := by
  unfold addStatesOf at h
  exact ⟨name, (List.mem_filter.1 h).1⟩

theorem mem_parseAddPass (c : RCtx) : ∀ (snap ret visited : S) (ch : Bool) (z : Nat),
    z ∈ (parseAddPass c snap ret visited ch).1 → z ∈ ret ∨ IsAddTarget c.sch z := by
  intro snap
  induction snap with
  | nil => intro ret visited ch z h; exact Or.inl h
  | cons name rest ih =>
    intro ret visited ch z h
    simp only [parseAddPass] at h
    split at h
    · exact ih _ _ _ z h
    · split at h
      · exact ih _ _ _ z h
      · split at h
        · exact ih _ _ _ z h
        · rcases ih _ _ _ z h with h1 | h1
          · rcases List.mem_append.1 h1 with h2 | h2
            · exact Or.inl h2
            · exact Or.inr (mem_addStatesOf h2)
          · exact Or.inr h1

theorem mem_parseAddLoop (c : RCtx) : ∀ (fuel : Nat) (ret visited : S) (z : Nat),
    z ∈ parseAddLoop c fuel ret visited → z ∈ ret ∨ IsAddTarget c.sch z := by
  intro fuel
  induction fuel with
  | zero => intro ret visited z h; exact Or.inl h
  | succ n ih =>
    intro ret visited z h
    simp only [parseAddLoop] at h
    split at h
    · rcases ih _ _ z h with h1 | h1
      · exact mem_parseAddPass c ret ret visited false z h1
      · exact Or.inr h1
    · exact mem_parseAddPass c ret ret visited false z h

/-- everything `parseAdd` returns was in its input or is an Add target. -/
theorem mem_parseAdd {c : RCtx} {l : S} {z : Nat} (h : z ∈ parseAdd c l) :
    z ∈ l ∨ IsAddTarget c.sch z := mem_parseAddLoop c _ l [] z h

/-- a state of the target is a survivor of the reverse scan, or an Add target
    that no survivor Removes. -/
theorem mem_targetStates_cases {c : RCtx} {toSet : S} {z : Nat} (h : z ∈ targetStates c toSet) :
    let s1 := parseRequire c.sch (uniq (parseAdd c toSet))
    let surv := scanBlocked c.sch s1 s1.reverse []
    (z ∈ surv ∨ IsAddTarget c.sch z) ∧ ∀ x ∈ surv, z ∉ (c.sch.get x).remove := by
  intro s1 surv
  simp only [targetStates, mem_sortStates] at h
  unfold targetUnsorted at h
  have h2 := (parseRequire_sublist _ _).subset h
  simp only [List.mem_reverse, mem_uniq, List.mem_filter] at h2
  refine ⟨mem_parseAdd h2.1, ?_⟩
  intro x hx hz
  have : z ∈ ((scanBlocked c.sch s1 s1.reverse []).map (fun n => (c.sch.get n).remove)).flatten := by
    simp only [List.mem_flatten, List.mem_map]
    exact ⟨_, ⟨x, hx, rfl⟩, hz⟩
  have h3 := h2.2
  simp only [Bool.not_eq_true', List.contains_eq_mem, decide_eq_false_iff_not] at h3
  exact h3 this

end Am
