#!/bin/bash
# One-off build after a fresh restore (offline): Lean proofs + model driver,
# Go harness and extractor.  Everything lands under /verif (bin/, lean/.lake).
set -e
cd /verif
export GOFLAGS=-mod=mod GOPROXY=off
unset GOTOOLCHAIN GOSUMDB
mkdir -p bin out evidence
(cd go && cp /repo/go.sum go.sum && go build -tags verif -o /verif/bin/amverif ./cmd/amverif && go build -tags verif -o /verif/bin/amextract ./cmd/amextract)
./bin/amextract -out /verif/lean/AmVerif/Generated
(cd lean && lake build AmVerif amdriver)
echo setup-ok
