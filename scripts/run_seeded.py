#!/usr/bin/env python3
"""run_seeded.py [<seeded-id> ...] [--props C01,C02]: apply each seeded mutant to
/repo, run the property's check (and optionally others), undo. Prints a matrix."""
import json, os, subprocess, sys, glob
ids = [a for a in sys.argv[1:] if not a.startswith('--')]
extra = []
for a in sys.argv[1:]:
    if a.startswith('--props='): extra = a.split('=')[1].split(',')
if not ids:
    ids = sorted(os.path.basename(d) for d in glob.glob('/verif/seeded/*'))
def sh(cmd, cwd='/verif'):
    p = subprocess.run(cmd, shell=True, cwd=cwd, stdout=subprocess.PIPE, stderr=subprocess.STDOUT, text=True)
    return p.returncode, p.stdout
man = json.load(open('/verif/MANIFEST.json'))
claimed = {c['property_id'] for c in man['checks']}
for i in ids:
    d = '/verif/seeded/' + i
    meta = json.load(open(d + '/meta.json'))
    prop = meta['property']
    rc, out = sh('git -C /repo status --porcelain | grep -v "^??" | head -1')
    if out.strip():
        print('repo dirty, abort'); sys.exit(1)
    rc, out = sh('git -C /repo apply %s/patch.diff' % d)
    if rc != 0:
        print(i, 'PATCH-FAILED', out[-200:]); continue
    try:
        for p in [prop] + [e for e in extra if e != prop]:
            if p not in claimed:
                print(i, p, 'not-claimed'); continue
            rc, out = sh('./check %s --tier quick' % p)
            v = [l for l in out.splitlines() if l.startswith('VIOLATION')]
            print(i, p, 'DETECTED' if rc != 0 else 'MISSED', '|', (v[0] if v else '')[:150])
    finally:
        sh('git -C /repo checkout -- .')
