#!/usr/bin/env python3
"""lock_expect.py: helper used once to draft the C12 guard expectations from
/verif/out/locks.json (the draft was then reviewed by hand; the committed
expectation lives in lean/AmVerif/Props/C12Expect.lean)."""
import json, sys, collections
rows = json.load(open('/verif/out/locks.json'))
G = {}
def lock(l, *fs):
    for f in fs: G[f] = ('lock', l)
def cls(c, *fs):
    for f in fs: G[f] = (c, None)
lock('Machine.activeStatesMx', 'Machine.activeStates', 'Machine.clock')
lock('Machine.queueMx', 'Machine.queue', 'Machine.queueTick', 'Machine.queueTicksPending')
lock('Machine.schemaMx', 'Machine.schema', 'Machine.stateNames', 'Machine.machineTick', 'Machine.groups', 'Machine.groupsOrder')
lock('Machine.tracersMx', 'Machine.tracers')
lock('Machine.handlersMx', 'Machine.handlers', 'Machine.disposeHandlers', 'Machine.nextHandlerNum')
lock('Machine.breakpointsMx', 'Machine.breakpoints')
lock('Machine.logEntriesLock', 'Machine.logEntries')
lock('Machine.poolMx', 'Machine.poolGlobalLimit', 'Machine.poolLimits', 'Machine.pools')
for f in ['clock', 'stateCtx', 'when', 'whenArgs', 'whenArgsCtx', 'whenCtx', 'whenQuery', 'whenQueryCtx', 'whenQueue', 'whenQueueEnds', 'whenTime', 'whenTimeCtx']:
    lock('Subscriptions.Mx', 'Subscriptions.' + f)
cls('initOnly', 'Machine.id', 'Machine.ctx', 'Machine.ctxParent', 'Machine.cancel', 'Machine.parentId', 'Machine.resolver',
    'Machine.semLogger', 'Machine.subs', 'Machine.detectEval', 'Subscriptions.mach', 'Subscriptions.is', 'Subscriptions.not',
    'Subscriptions.log', 'Subscriptions.Closed')
cls('exempt', 'Machine.DisposeTimeout', 'Machine.EvalTimeout', 'Machine.HandlerBackoff', 'Machine.HandlerDeadline',
    'Machine.HandlerTimeout', 'Machine.LogStackTrace', 'Machine.PanicToException', 'Machine.QueueLimit', 'Machine.handlerTimer', 'Machine.tDbg')
ctors = ['New', 'NewCommon', 'NewSubscriptions', 'TestMockClock']
bad = []
unknown = set()
for r in rows:
    if r['type'].startswith('sync/atomic.') or r['type'].startswith('chan ') or r['type'].startswith('<-chan'):
        continue
    g = G.get(r['field'])
    if g is None:
        unknown.add((r['field'], r['type'])); continue
    if g[0] == 'exempt': continue
    if g[0] == 'initOnly':
        if r['write'] and r['func'] not in ctors: bad.append(('INIT-WRITE', r))
        continue
    l = g[1]
    ok = r['func'] in ctors or any(x.split(':')[0] == l and (not r['write'] or x.endswith(':W')) for x in (r['locks'] or []))
    if not ok: bad.append(('EXC', r))
print('unknown', sorted(unknown))
for k, r in bad:
    print(k, 'W' if r['write'] else 'R', r['field'], r['func'], r['locks'], '*' if r['async'] else '')
print(len(bad))
json.dump({'guards': G, 'ctors': ctors, 'exceptions': [[r['field'], r['func'], r['write']] for k, r in bad if k == 'EXC']}, open('/verif/out/lock_expect_draft.json', 'w'), indent=1)
