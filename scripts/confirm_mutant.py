#!/usr/bin/env python3
"""confirm_mutant.py <worktree> <a|b> : re-validate a sub-agent's mutant on the
current /repo HEAD and store it under /verif/seeded/<prop>-<a|b>/."""
import json, os, shutil, subprocess, sys
wt, which = sys.argv[1], sys.argv[2]
env = dict(os.environ, GOFLAGS='-mod=mod', GOPROXY='off')
if len(sys.argv) > 1 and 'C15' in sys.argv[1]:
    # pkg/node: the repo's own runner skips the two tests that hang / always fail
    env['AM_TEST_RUNNER'] = '1'
def sh(cmd, cwd=wt, timeout=1800):
    p = subprocess.run(cmd, shell=True, cwd=cwd, env=env, stdout=subprocess.PIPE, stderr=subprocess.STDOUT, text=True, timeout=timeout)
    return p.returncode, p.stdout
src = os.path.join(wt, '_out', which)
meta = json.load(open(os.path.join(src, 'meta.json')))
prop = meta['property']
sh('git checkout -q -- . && git clean -fdq -e _out && git checkout -q --detach main')
demo_dir = meta['demo_dir'].rstrip('/')
demo_name = 'zz_demo_%s_%s_test.go' % (prop, which)
shutil.copy(os.path.join(src, 'demo_test.go'), os.path.join(wt, demo_dir, demo_name))
run = meta['demo_run']
rc0, out0 = sh(run)
rc, out = sh('git apply %s' % os.path.join(src, 'patch.diff'))
if rc != 0:
    print('PATCH DOES NOT APPLY on current HEAD:', out[-500:]); sh('git checkout -q -- . && git clean -fdq -e _out'); sys.exit(1)
rc1, out1 = sh(run)
os.remove(os.path.join(wt, demo_dir, demo_name))
pk = './' + demo_dir + '/...' if not demo_dir.endswith('machine') else './pkg/machine/'
if demo_dir.startswith('pkg/history'):
    # bbolt's TestBboltRead fails on the unchanged tree (not in the stable baseline)
    pk = './pkg/history/ ./pkg/history/test/ ./pkg/history/badger/ ./pkg/history/gorm/'
rc2, out2 = sh('go test -count=1 %s 2>&1 | tail -15' % pk)
suite_ok = 'FAIL' not in out2 or all(('TestBboltRead' in l or 'bbolt' in l or 'FAIL\t' in l and 'bbolt' in l) for l in out2.splitlines() if 'FAIL' in l)
sh('git checkout -q -- . && git clean -fdq -e _out')
print('%s-%s unchanged-demo rc=%d mutant-demo rc=%d suite_ok=%s' % (prop, which, rc0, rc1, suite_ok))
if rc0 == 0 and rc1 != 0 and suite_ok:
    dst = '/verif/seeded/%s-%s' % (prop, which)
    os.makedirs(dst, exist_ok=True)
    shutil.copy(os.path.join(src, 'patch.diff'), dst)
    shutil.copy(os.path.join(src, 'demo_test.go'), dst)
    meta['confirmed'] = {'base': subprocess.check_output('git -C /repo rev-parse --short HEAD', shell=True, text=True).strip(),
                         'ran': [run + ' (unchanged: pass; with patch: fail)', 'go test -count=1 ' + pk + ' with patch: pass']}
    json.dump(meta, open(os.path.join(dst, 'meta.json'), 'w'), indent=1)
    print('KEPT', dst)
else:
    print('REJECTED'); print(out0[-300:]); print(out1[-300:]); print(out2[-600:])
