#!/usr/bin/env python3
"""catch_matrix.py: render out/seeded_matrix.txt (from run_seeded.py) + seeded/*/meta.json as the
markdown table of DESIGN.md §8 (replaces the block between the two marker comments)."""
import json, re, sys
rows = {}
for l in open('/verif/out/seeded_matrix.txt'):
    p = l.split()
    if len(p) >= 3 and re.match(r'C\d\d-\w', p[0]):
        how = 'caught (failing input)' if p[2] == 'DETECTED' and 'no-failing-input-found' not in l else \
              'caught (proof/correspondence breaks, no failing input found)' if p[2] == 'DETECTED' else 'missed'
        rows.setdefault(p[0], []).append((p[1], how))
extra = {}
try:
    for l in open('/verif/out/seeded_matrix_extra.txt'):
        p = l.split()
        if len(p) >= 3: extra.setdefault(p[0], []).append((p[1], 'caught' if p[2] == 'DETECTED' else 'missed'))
except FileNotFoundError:
    pass
out = ['| change | what it does | own check | other checks |', '|---|---|---|---|']
for i in sorted(rows):
    m = json.load(open('/verif/seeded/%s/meta.json' % i))
    s = m['summary'].replace('|', '/').replace('\n', ' ')
    if len(s) > 150: s = s[:147] + '…'
    ctl = m.get('harmless') or m.get('harmless_since')
    own = '; '.join('%s: %s' % (x[0], 'quiet, as it must be' if ctl and x[1] == 'missed' else x[1]) for x in rows[i])
    if m.get('harmless_since'): own += ' (harmless since a fix: negative control)'
    elif m.get('harmless'): own += ' (harmless for this property: negative control)'
    oth = '; '.join('%s: %s' % x for x in extra.get(i, []))
    out.append('| %s | %s | %s | %s |' % (i, s, own, oth))
table = '\n'.join(out)
d = open('/verif/DESIGN.md').read()
if 'SEEDED_MATRIX_PLACEHOLDER' in d:
    d = d.replace('SEEDED_MATRIX_PLACEHOLDER', '<!-- matrix:begin -->\n' + table + '\n<!-- matrix:end -->')
else:
    d = re.sub(r'<!-- matrix:begin -->.*?<!-- matrix:end -->', lambda _: '<!-- matrix:begin -->\n' + table + '\n<!-- matrix:end -->', d, flags=re.S)
open('/verif/DESIGN.md', 'w').write(d)
print(table)
