#!/bin/bash
# Runs the repository's pinned baseline suite (guard OFF) in $1 (default /repo)
# and compares with /root/.vp/BASELINE.json stable_pass.  Exit 0 iff every
# stable test passed.
REPO=${1:-/repo}
OUT=${2:-/tmp/baseline.$$.json}
export GOFLAGS=-mod=mod GOPROXY=off
cd "$REPO" || exit 2
go test -mod=mod -json -vet=off -count=1 -timeout 25m ./... > "$OUT" 2>/dev/null
python3 - "$OUT" <<'PY'
import json,sys
base=json.load(open('/root/.vp/BASELINE.json'))
stable=set(base['stable_pass'])
res={}
for l in open(sys.argv[1]):
    try: e=json.loads(l)
    except Exception: continue
    if e.get('Test') and e.get('Action') in('pass','fail','skip'):
        res[e['Package']+'::'+e['Test']]=e['Action']
missing=[t for t in sorted(stable) if res.get(t)!='pass']
print('stable',len(stable),'passed',len(stable)-len(missing))
for t in missing: print('NOT-PASS',t,res.get(t))
sys.exit(1 if missing else 0)
PY
rc=$?
rm -f "$OUT"
exit $rc
