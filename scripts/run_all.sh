#!/bin/bash
# run_all.sh [P] [tier]: every check, P at a time (default 1); prints one line per check and the failures
P=${1:-1}; TIER=${2:-quick}
cd /verif
ids=$(python3 -c "import json;print(' '.join(c['property_id'] for c in json.load(open('MANIFEST.json'))['checks']))")
echo $ids | tr ' ' '\n' | xargs -P $P -I{} bash -c "./check {} --tier $TIER > out/runall_{}.log 2>&1; echo {} rc=\$? \$(grep -c '^VIOLATION' out/runall_{}.log) violations"
