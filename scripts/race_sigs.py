#!/usr/bin/env python3
"""race_sigs.py <race log files...>: print distinct race signatures (innermost
asyncmachine frames of both accesses)."""
import re, sys
def sigs(txt):
    out = []
    for b in txt.split('=================='):
        if 'DATA RACE' not in b:
            continue
        parts = re.split(r'\n\n', b.strip())
        tops = []
        for p in parts[:2]:
            fr = [l.strip() for l in p.split('\n') if l.startswith('  ') and not l.startswith('      ')]
            f = [x for x in fr if 'asyncmachine-go' in x][:1]
            f = [re.sub(r'\[.*\]', '', x.replace('github.com/pancsta/asyncmachine-go/pkg/', '').replace('()', '')) for x in f]
            tops.append(f[0] if f else '?')
        out.append(' | '.join(sorted(tops)))
    return out
if __name__ == '__main__':
    c = {}
    for f in sys.argv[1:]:
        for s in sigs(open(f).read()):
            c[s] = c.get(s, 0) + 1
    for k, v in sorted(c.items(), key=lambda x: -x[1]):
        print(v, k)
