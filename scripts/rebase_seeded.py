#!/usr/bin/env python3
"""rebase_seeded.py: re-base every /verif/seeded/*/patch.diff that no longer applies to
/repo HEAD (3-way, in a scratch worktree under /tmp, removed afterwards)."""
import glob, os, subprocess, sys
def sh(cmd, cwd=None):
    p = subprocess.run(cmd, shell=True, cwd=cwd, stdout=subprocess.PIPE, stderr=subprocess.STDOUT, text=True)
    return p.returncode, p.stdout
for d in sorted(glob.glob('/verif/seeded/*')):
    pf = d + '/patch.diff'
    rc, out = sh('git -C /repo apply --check %s' % pf)
    if rc == 0:
        continue
    wt = '/tmp/wt-rebase'
    sh('git -C /repo worktree remove --force %s' % wt)
    sh('git -C /repo worktree add --detach %s HEAD' % wt)
    rc, out = sh('git apply --3way %s' % pf, cwd=wt)
    if rc != 0:
        print(os.path.basename(d), 'CONFLICT', out[-300:])
    else:
        rc, diff = sh('git diff HEAD', cwd=wt)
        open(pf, 'w').write(diff)
        print(os.path.basename(d), 'rebased')
    sh('git -C /repo worktree remove --force %s' % wt)
